package vnet

import (
	"github.com/nspcc-dev/dbft"
)

// Adversary drives the Byzantine participants. It respects the
// authenticity filter of an authenticated transport: it creates payloads
// only under the identities (validator indices, keys) of Byzantine nodes,
// may replay exact copies of genuine payloads, and may assemble recovery
// messages from such payloads. It never reads honest keys.
type Adversary struct {
	c        *Cluster
	Byz      []*Node
	Withhold float64 // probability that a puppet's own genuine broadcast is withheld
	// proposals known per (height, view): genuine and forged
	Props  map[[2]uint32][]*Payload
	Forged []*Payload
	Moves  map[string]int
	// Weights of the move kinds (zero value: all equal).
	W map[string]int
}

var advKinds = []string{"proposal", "respond", "commit", "precommit", "changeview", "recreq", "recmsg", "replay", "badindex"}

// NewAdversary attaches an adversary controlling the cluster's Byzantine nodes.
func NewAdversary(c *Cluster) *Adversary {
	a := &Adversary{c: c, Props: map[[2]uint32][]*Payload{}, Moves: map[string]int{}}
	for _, n := range c.Nodes {
		if n.Role == Byzantine {
			a.Byz = append(a.Byz, n)
		}
	}
	c.Adv = a
	return a
}

func (a *Adversary) observeOwn(_ *Node, p *Payload) {
	if p.T == dbft.PrepareRequestType {
		a.noteProp(p)
	}
}

func (a *Adversary) passPuppet(_ *Node, _ *Payload) bool {
	return !a.c.chance(a.Withhold)
}

func (a *Adversary) noteProp(p *Payload) {
	k := [2]uint32{p.Hgt, uint32(p.View)}
	h := p.Hash()
	for _, q := range a.Props[k] {
		if q.Hash() == h {
			return
		}
	}
	a.Props[k] = append(a.Props[k], p)
}

func (a *Adversary) learn() {
	for _, p := range a.c.GenList {
		if p.T == dbft.PrepareRequestType {
			a.noteProp(p)
		}
	}
}

func (a *Adversary) targets() []int {
	c := a.c
	var res []int
	for _, n := range c.Nodes {
		if n.Role == Honest && n.Live() {
			res = append(res, n.ID)
		}
	}
	if len(res) == 0 {
		return nil
	}
	switch c.Rng.Intn(3) {
	case 0: // everybody
		return res
	case 1: // one
		return []int{res[c.Rng.Intn(len(res))]}
	default: // random non-empty subset
		var sub []int
		for _, id := range res {
			if c.Rng.Intn(2) == 0 {
				sub = append(sub, id)
			}
		}
		if len(sub) == 0 {
			sub = []int{res[c.Rng.Intn(len(res))]}
		}
		return sub
	}
}

// Inject sends payload p from Byzantine node b to the given targets.
func (a *Adversary) Inject(b *Node, p *Payload, to []int, note string) {
	c := a.c
	c.nextUID++
	p.UID, p.Origin, p.Forged = c.nextUID, b.ID, true
	a.Forged = append(a.Forged, p)
	c.emit(&Event{Node: b.ID, Kind: KAdversary, P: p, Note: note})
	for _, t := range to {
		c.enqueue(b.ID, t, p, true)
	}
}

// Replay re-sends an exact copy of a genuine payload.
func (a *Adversary) Replay(b *Node, p *Payload, to []int) {
	c := a.c
	c.emit(&Event{Node: b.ID, Kind: KAdversary, P: p, Note: "replay"})
	for _, t := range to {
		c.enqueue(b.ID, t, p, true)
	}
}

func (a *Adversary) pickKind() string {
	c := a.c
	if len(a.W) == 0 {
		return advKinds[c.Rng.Intn(len(advKinds))]
	}
	total := 0
	for _, k := range advKinds {
		total += a.W[k]
	}
	if total == 0 {
		return advKinds[c.Rng.Intn(len(advKinds))]
	}
	r := c.Rng.Intn(total)
	for _, k := range advKinds {
		if r < a.W[k] {
			return k
		}
		r -= a.W[k]
	}
	return advKinds[0]
}

// refNode picks an honest live node as the reference for "current" height/view.
func (a *Adversary) refNode() *Node {
	l := a.c.HonestLive()
	if len(l) == 0 {
		return nil
	}
	return l[a.c.Rng.Intn(len(l))]
}

// HeaderFor builds the header every honest node derives from proposal p on top of tip.
func HeaderFor(p *Payload, prev H) Header {
	r := p.Body.(*PrepReq)
	return Header{Idx: p.Hgt, Prev: prev, Ts: r.Ts, Nonce: r.Nc, TxH: append([]H(nil), r.Hashes...)}
}

// BlockFor builds the block (final block under anti-MEV) that proposal p leads to.
func (c *Cluster) BlockFor(p *Payload, prev H) *Block {
	hd := HeaderFor(p, prev)
	if c.Cfg.AMEV >= 0 && uint32(c.Cfg.AMEV) <= p.Hgt {
		pb := &PreBlock{Header: hd}
		return NewAMEVBlock(pb, nil)
	}
	return &Block{Header: hd}
}

// PreBlockFor builds the pre-block that proposal p leads to.
func (c *Cluster) PreBlockFor(p *Payload, prev H) *PreBlock {
	return &PreBlock{Header: HeaderFor(p, prev)}
}

// Move performs one adversary action.
func (a *Adversary) Move() {
	c := a.c
	if len(a.Byz) == 0 {
		return
	}
	a.learn()
	b := a.Byz[c.Rng.Intn(len(a.Byz))]
	ref := a.refNode()
	if ref == nil {
		return
	}
	h, v := ref.D.BlockIndex, ref.D.ViewNumber
	if c.Rng.Intn(8) == 0 && v < 250 {
		v += byte(1 + c.Rng.Intn(2))
	}
	if c.Rng.Intn(16) == 0 {
		h++
	}
	vi := c.ValidatorIndex(h, b.ID)
	if vi < 0 {
		return
	}
	n := len(c.Validators(h))
	kind := a.pickKind()
	a.Moves[kind]++
	mk := func(t dbft.MessageType, view byte, body any) *Payload {
		return &Payload{T: t, Hgt: h, View: view, Idx: uint16(vi), Body: body}
	}
	prev := ref.TipHash()
	if ref.D.BlockIndex != h {
		prev = H{} // future height: previous hash unknown yet
	}
	switch kind {
	case "proposal":
		// any view for which b is the primary near the current one
		var views []byte
		for d := 0; d < n && d < 4; d++ {
			vv := int(v) + d
			if vv > 255 {
				break
			}
			if int((int64(h)-int64(vv))%int64(n)+int64(n))%n == vi {
				views = append(views, byte(vv))
			}
		}
		if len(views) == 0 {
			a.Moves["proposal-not-primary"]++
			// a proposal under its own identity although it is not the primary: must be ignored
			views = []byte{v}
		}
		pv := views[c.Rng.Intn(len(views))]
		req := &PrepReq{Ts: ref.TipTs() + uint64(1+c.Rng.Intn(5))*c.Cfg.TsInc*uint64(1+c.Rng.Intn(1000)), Nc: c.Rng.Uint64(), Hashes: []H{}}
		switch c.Rng.Intn(6) {
		case 0: // timestamp not above the previous block
			req.Ts = ref.TipTs()
		}
		// transactions: known ones, sometimes unknown to some nodes, sometimes invalid
		var ids []H
		inChain := map[H]bool{}
		for _, blk := range ref.Chain {
			for _, hh := range blk.TxH {
				inChain[hh] = true
			}
		}
		for hh, t := range c.Universe {
			if !t.Bad && !inChain[hh] {
				ids = append(ids, hh)
			}
		}
		sortHashes(ids)
		cnt := c.Rng.Intn(4)
		for i := 0; i < cnt && len(ids) > 0; i++ {
			j := c.Rng.Intn(len(ids))
			req.Hashes = append(req.Hashes, ids[j])
			ids = append(ids[:j], ids[j+1:]...)
		}
		switch c.Rng.Intn(8) {
		case 0:
			t := c.NewTx(true) // invalid transaction, obtainable on request
			req.Hashes = append(req.Hashes, t.Hash())
		case 1:
			t := c.NewTx(false) // valid but in nobody's pool: must be requested
			req.Hashes = append(req.Hashes, t.Hash())
		case 2:
			req.Hashes = append(req.Hashes, TxHash(1<<40+uint64(c.Rng.Intn(1000)))) // does not exist at all
		}
		p := mk(dbft.PrepareRequestType, pv, req)
		a.noteProp(p)
		a.Inject(b, p, a.targets(), "proposal")
	case "respond":
		var ph H
		if l := a.Props[[2]uint32{h, uint32(v)}]; len(l) > 0 && c.Rng.Intn(4) != 0 {
			ph = l[c.Rng.Intn(len(l))].Hash()
		} else {
			c.Rng.Read(ph[:])
		}
		a.Inject(b, mk(dbft.PrepareResponseType, v, &PrepResp{Prep: ph}), a.targets(), "respond")
	case "commit", "precommit":
		l := a.Props[[2]uint32{h, uint32(v)}]
		var sig []byte
		cv := v
		mode := c.Rng.Intn(6)
		if len(l) > 0 && mode != 0 {
			p := l[c.Rng.Intn(len(l))]
			if kind == "commit" {
				sig = c.BlockFor(p, prev).SignWith(b.Key)
			} else {
				sig = c.PreBlockFor(p, prev).DataWith(b.Key)
			}
			if mode == 1 && cv < 255 { // valid signature, but claimed for another view
				cv++
			}
		} else {
			sig = make([]byte, 64)
			c.Rng.Read(sig)
			if kind == "precommit" {
				sig = sig[:16]
			}
		}
		if kind == "commit" {
			a.Inject(b, mk(dbft.CommitType, cv, &CommitB{Sig: sig}), a.targets(), "commit")
		} else {
			a.Inject(b, mk(dbft.PreCommitType, cv, &PreCommitB{D: sig}), a.targets(), "precommit")
		}
	case "changeview":
		nv := int(v) + 1
		switch c.Rng.Intn(5) {
		case 0:
			nv = int(v) + 2
		case 1:
			nv = int(v) + 1 + c.Rng.Intn(6)
		case 2:
			nv = 255
		}
		if nv > 255 {
			nv = 255
		}
		ov := nv - 1
		a.Inject(b, mk(dbft.ChangeViewType, byte(ov), &ChView{NewView: byte(nv), Rsn: dbft.CVTimeout, Ts: uint64(c.Cfg.Epoch + c.Clock)}), a.targets(), "changeview")
	case "recreq":
		a.Inject(b, mk(dbft.RecoveryRequestType, v, &RecReq{Ts: uint64(c.Cfg.Epoch + c.Clock)}), a.targets(), "recreq")
	case "recmsg":
		rm := &RecMsg{}
		// candidates: genuine payloads of this height and the adversary's own forged ones
		var cand []*Payload
		for _, p := range c.GenList {
			if p.Hgt == h {
				cand = append(cand, p)
			}
		}
		for _, p := range a.Forged {
			if p.Hgt == h {
				cand = append(cand, p)
			}
		}
		for _, p := range cand {
			if c.Rng.Intn(2) == 0 {
				continue
			}
			switch p.T {
			case dbft.PrepareRequestType:
				if rm.PrepReq == nil || c.Rng.Intn(2) == 0 {
					rm.PrepReq = p.Clone()
				}
			case dbft.PrepareResponseType, dbft.ChangeViewType, dbft.PreCommitType, dbft.CommitType:
				rm.AddPayload(p)
			}
		}
		a.Inject(b, mk(dbft.RecoveryMessageType, v, rm), a.targets(), "recmsg")
	case "replay":
		if len(c.GenList) == 0 {
			return
		}
		// bias towards recent payloads
		i := len(c.GenList) - 1 - c.Rng.Intn(min(len(c.GenList), 40))
		a.Replay(b, c.GenList[i], a.targets())
	case "badindex":
		p := mk(dbft.ChangeViewType, v, &ChView{NewView: v + 1, Ts: 1})
		p.Idx = uint16(n + c.Rng.Intn(3))
		if c.Rng.Intn(2) == 0 {
			p.T, p.Body = dbft.PrepareResponseType, &PrepResp{}
		}
		a.Inject(b, p, a.targets(), "badindex")
	}
}
