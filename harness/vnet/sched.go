package vnet

import (
	"time"
)

// Knobs steer the seeded scheduler. All probabilities are per scheduler step.
type Knobs struct {
	Sync            bool    // time-ordered execution: deliver what is due, fire what expired, else advance the clock
	PDrop           float64 // drop a deliverable envelope
	PDup            float64 // deliver a copy and keep the envelope
	PEarlyTimer     float64 // spurious OnTimeout(current h, current v) before the deadline
	PStaleTimer     float64 // OnTimeout tagged with another height/view
	PAdvance        float64 // advance the clock to the next deadline although envelopes are waiting
	PDelayReset     float64 // leave a node that accepted a block un-Reset for this step
	PTimeoutDecided float64 // OnTimeout(current h, v) on a node that accepted a block and was not Reset yet
	PNewTx          float64 // a new transaction appears (gossiped to all pools unless missing)
	PTxMissing      float64 // probability that a node does not get a new transaction
	PBadTx          float64 // a new transaction is invalid (only adversaries propose those)
	PSupply         float64 // supply one requested transaction to a node
	PUnasked        float64 // OnTransaction with a transaction nobody asked for
	PRestart        float64 // amnesia restart of a node of RestartSet
	PCut            float64 // start a partition of CutSet
	PHeal           float64 // heal the partition
	PSyncLedger     float64 // a node that is behind copies the next block from a peer
	PAdv            float64 // adversary move
	PNotify         float64 // OnNewTransaction to a subscribed node when its pool is non-empty
	PTxAtPoolRead   float64 // a transaction arrives right after an (empty) read of the verified pool, i.e. inside the library call
	NotifyAll       bool    // deliver OnNewTransaction to every subscribed node as soon as a tx arrives
	ObserverSync    bool    // nodes outside the current validator list copy finished blocks from peers at once (full-node block relay)
	FIFO            bool    // always pick the oldest deliverable envelope / lowest node id (deterministic schedule)
	SlowNode        int     // node with extra inbound latency (-1: none)
	SlowExtra       time.Duration
	ResetDelayMax   time.Duration // the application calls Reset up to this long after accepting a block
	ResetDelayNode  int           // only this node delays its Resets (-1: every node)
	MaxRestarts     int
	RestartSet      []int
	CutSet          []int
}

// Hooks lets a profile script parts of a run.
type Hooks struct {
	BeforeStep func(c *Cluster) // called before every scheduler step
	Done       func(c *Cluster) bool
}

// TargetHeight is the ledger height at which the run ends.
func (c *Cluster) TargetHeight() uint32 { return c.Cfg.BaseHeight + uint32(c.Cfg.Heights) }

// HonestLive lists live honest nodes.
func (c *Cluster) HonestLive() []*Node {
	var res []*Node
	for _, n := range c.Nodes {
		if n.Role == Honest && n.Live() {
			res = append(res, n)
		}
	}
	return res
}

// AllDone tells whether every live honest node reached the target height.
func (c *Cluster) AllDone() bool {
	any := false
	for _, n := range c.Nodes {
		if n.Role != Honest || !n.Live() {
			continue
		}
		any = true
		if n.Height() < c.TargetHeight() {
			return false
		}
	}
	return any
}

// HonestLiveOrAll lists the honest nodes (started or not).
func (c *Cluster) HonestLiveOrAll() []*Node {
	var res []*Node
	for _, n := range c.Nodes {
		if n.Role == Honest {
			res = append(res, n)
		}
	}
	return res
}

// AllValidatorsDone tells whether every live honest node that takes an active part reached the target height.
func (c *Cluster) AllValidatorsDone() bool {
	any := false
	for _, n := range c.Nodes {
		if n.Role != Honest || !n.Live() || n.D == nil || n.D.Validators == nil || n.D.Context.WatchOnly() {
			continue
		}
		any = true
		if n.Height() < c.TargetHeight() {
			return false
		}
	}
	return any
}

// StartAll starts every non-silent node in id order (or a seeded order).
func (c *Cluster) StartAll(shuffle bool) {
	order := make([]int, len(c.Nodes))
	for i := range order {
		order[i] = i
	}
	if shuffle {
		c.Rng.Shuffle(len(order), func(i, j int) { order[i], order[j] = order[j], order[i] })
	}
	for _, i := range order {
		n := c.Nodes[i]
		if n.Role == Silent {
			continue
		}
		n.Start()
	}
}

func (c *Cluster) pick(n int) int {
	if n <= 1 || c.Cfg.K.FIFO {
		return 0
	}
	return c.Rng.Intn(n)
}

func (c *Cluster) chance(p float64) bool { return p > 0 && c.Rng.Float64() < p }

// deliverable returns indices into Inflight of envelopes that may be delivered now.
func (c *Cluster) deliverable() []int {
	var res []int
	for i, e := range c.Inflight {
		if e.ReadyAt <= c.Clock {
			res = append(res, i)
		}
	}
	return res
}

func (c *Cluster) expired() []*Node {
	var res []*Node
	for _, n := range c.Nodes {
		if !n.Live() {
			continue
		}
		if dl, p := n.Timer.Deadline(); p && dl <= c.Clock {
			res = append(res, n)
		}
	}
	return res
}

// nextInstant returns the next virtual instant at which something becomes enabled.
func (c *Cluster) nextInstant(includeEnvelopes bool) (int64, bool) {
	var best int64
	found := false
	for _, n := range c.Nodes {
		if !n.Live() {
			continue
		}
		if dl, p := n.Timer.Deadline(); p && dl > c.Clock {
			if !found || dl < best {
				best, found = dl, true
			}
		}
	}
	for _, n := range c.Nodes {
		if n.PendingReset && n.Live() && n.ResetAt > c.Clock && (!found || n.ResetAt < best) {
			best, found = n.ResetAt, true
		}
	}
	if len(c.TxSchedule) > 0 && c.TxSchedule[0] > c.Clock && (!found || c.TxSchedule[0] < best) {
		best, found = c.TxSchedule[0], true
	}
	if includeEnvelopes {
		for _, e := range c.Inflight {
			if e.ReadyAt > c.Clock && (!found || e.ReadyAt < best) {
				best, found = e.ReadyAt, true
			}
		}
	}
	return best, found
}

// AddTx creates a transaction and gossips it to the pools.
func (c *Cluster) AddTx(bad bool, missProb float64) *Tx {
	t := c.NewTx(bad)
	for _, n := range c.Nodes {
		if n.Role == Silent {
			continue
		}
		if bad || c.chance(missProb) {
			continue // invalid transactions never enter honest pools
		}
		n.Pool[t.Hash()] = t
	}
	c.emit(&Event{Node: -1, Kind: KNet, Tx: t, Note: "new-tx"})
	if c.Cfg.K.NotifyAll {
		for _, n := range c.Nodes {
			if n.Live() && n.Subscribed {
				if _, ok := n.Pool[t.Hash()]; ok {
					n.Subscribed = false
					if c.InsideAPI() {
						// the application cannot call back into the library from one of its callbacks:
						// the notification is delivered as soon as the current call has returned
						c.deferred = append(c.deferred, n)
						continue
					}
					n.NewTxNotify()
					c.afterAPI(n)
				}
			}
		}
	}
	return t
}

// InsideAPI tells whether some node is executing a library call right now.
func (c *Cluster) InsideAPI() bool {
	for _, n := range c.Nodes {
		if n.depth > 0 {
			return true
		}
	}
	return false
}

func (c *Cluster) runDeferred() bool {
	if len(c.deferred) == 0 {
		return false
	}
	l := c.deferred
	c.deferred = nil
	for _, n := range l {
		if n.Live() {
			n.NewTxNotify()
			c.afterAPI(n)
		}
	}
	return true
}

// afterAPI runs the documented application loop step that follows an API call.
func (c *Cluster) afterAPI(n *Node) {
	if !n.PendingReset || !n.Live() {
		return
	}
	if max := c.Cfg.K.ResetDelayMax; max > 0 && (c.Cfg.K.ResetDelayNode < 0 || c.Cfg.K.ResetDelayNode == n.ID) {
		if n.ResetAt == 0 {
			n.ResetAt = c.Clock + 1 + c.Rng.Int63n(int64(max))
			if c.Rng.Intn(3) == 0 {
				n.ResetAt = c.Clock
			}
		}
		if n.ResetAt <= c.Clock {
			c.doReset(n)
		}
		return
	}
	if c.Cfg.K.Sync || !c.chance(c.Cfg.K.PDelayReset) {
		c.doReset(n)
	}
}

// doReset calls Reset and then looks again: replaying cached payloads inside
// Reset may already have decided the new height.
func (c *Cluster) doReset(n *Node) {
	n.Reset()
	c.afterAPI(n)
}

// dueResets performs the Resets whose (virtual) persistence delay has elapsed.
func (c *Cluster) dueResets() bool {
	did := false
	for _, n := range c.Nodes {
		if n.PendingReset && n.Live() && n.ResetAt != 0 && n.ResetAt <= c.Clock {
			c.doReset(n)
			did = true
		}
	}
	return did
}

// dueTxs makes scheduled transactions appear.
func (c *Cluster) dueTxs() bool {
	did := false
	for len(c.TxSchedule) > 0 && c.TxSchedule[0] <= c.Clock {
		c.TxSchedule = c.TxSchedule[1:]
		c.AddTx(false, c.Cfg.K.PTxMissing)
		did = true
	}
	return did
}

// Step executes one scheduler step. It returns false when nothing can happen any more.
func (c *Cluster) Step(hooks *Hooks) bool {
	if c.Aborted {
		return false
	}
	c.Steps++
	if hooks != nil && hooks.BeforeStep != nil {
		hooks.BeforeStep(c)
	}
	k := &c.Cfg.K

	if c.runDeferred() {
		return true
	}
	if c.dueTxs() {
		return true
	}
	// nodes that accepted a block and were left un-Reset get their Reset sooner or later
	if k.ResetDelayMax > 0 {
		if c.dueResets() {
			return true
		}
	} else {
		for _, n := range c.Nodes {
			if n.PendingReset && n.Live() && !c.chance(k.PDelayReset) {
				c.doReset(n)
			}
		}
	}

	if k.ObserverSync && c.observerSync() {
		return true
	}
	if k.Sync {
		return c.stepSync()
	}

	// --- asynchronous / hostile scheduling
	if c.Adv != nil && c.chance(k.PAdv) {
		c.Adv.Move()
		return true
	}
	if c.chance(k.PNewTx) {
		c.AddTx(false, k.PTxMissing)
		return true
	}
	if c.chance(k.PSupply) && c.supplyOne() {
		return true
	}
	if c.chance(k.PUnasked) {
		if l := c.HonestLive(); len(l) > 0 {
			n := l[c.pick(len(l))]
			t := c.NewTx(false)
			n.SupplyTx(t)
			c.afterAPI(n)
			return true
		}
	}
	if c.chance(k.PNotify) {
		for _, n := range c.HonestLive() {
			if n.Subscribed && len(n.verified()) > 0 {
				n.Subscribed = false
				n.NewTxNotify()
				c.afterAPI(n)
				return true
			}
		}
	}
	if c.chance(k.PTimeoutDecided) {
		for _, n := range c.HonestLive() {
			if n.PendingReset {
				n.Timeout(n.D.BlockIndex, n.D.ViewNumber, "while-decided")
				return true
			}
		}
	}
	if c.chance(k.PEarlyTimer) {
		if l := c.HonestLive(); len(l) > 0 {
			n := l[c.pick(len(l))]
			n.Timeout(n.D.BlockIndex, n.D.ViewNumber, "early")
			c.afterAPI(n)
			return true
		}
	}
	if c.chance(k.PStaleTimer) {
		if l := c.HonestLive(); len(l) > 0 {
			n := l[c.pick(len(l))]
			h, v := n.D.BlockIndex, n.D.ViewNumber
			switch c.Rng.Intn(4) {
			case 0:
				h--
			case 1:
				h++
			case 2:
				v++
			default:
				if v > 0 {
					v--
				} else {
					v = 200
				}
			}
			n.Timeout(h, v, "stale")
			c.afterAPI(n)
			return true
		}
	}
	if c.chance(k.PRestart) && c.restartOne() {
		return true
	}
	if len(c.Cut) == 0 && c.chance(k.PCut) && len(k.CutSet) > 0 {
		c.SetCut(k.CutSet)
		return true
	}
	if len(c.Cut) > 0 && c.chance(k.PHeal) {
		c.SetCut(nil)
		return true
	}
	if c.chance(k.PSyncLedger) && c.syncOne() {
		return true
	}

	dl := c.deliverable()
	if len(dl) > 0 && !c.chance(k.PAdvance) {
		i := dl[c.pick(len(dl))]
		switch {
		case c.chance(k.PDrop):
			c.removeEnv(i)
			c.Stats["drop"]++
		case c.chance(k.PDup):
			e := c.Inflight[i]
			c.Stats["dup"]++
			cp := *e
			cp.Dup = true
			c.Deliver(&cp)
			c.afterAPI(c.Nodes[e.To])
		default:
			e := c.removeEnv(i)
			c.Deliver(e)
			c.afterAPI(c.Nodes[e.To])
		}
		return true
	}
	if ex := c.expired(); len(ex) > 0 {
		n := ex[c.pick(len(ex))]
		n.FireTimer()
		c.afterAPI(n)
		return true
	}
	if t, ok := c.nextInstant(true); ok {
		c.Clock = t
		return true
	}
	if len(dl) > 0 { // PAdvance was drawn but there is nothing to advance to
		e := c.removeEnv(dl[c.pick(len(dl))])
		c.Deliver(e)
		c.afterAPI(c.Nodes[e.To])
		return true
	}
	// pending resets / syncs may still unblock something
	for _, n := range c.Nodes {
		if n.PendingReset && n.Live() {
			c.doReset(n)
			return true
		}
	}
	if k.PSyncLedger > 0 && c.syncOne() {
		return true
	}
	return false
}

func (c *Cluster) stepSync() bool {
	k := &c.Cfg.K
	if c.Adv != nil && c.chance(k.PAdv) {
		c.Adv.Move()
		return true
	}
	if c.chance(k.PNewTx) {
		c.AddTx(false, k.PTxMissing)
		return true
	}
	if c.chance(k.PSupply) && c.supplyOne() {
		return true
	}
	if c.chance(k.PSyncLedger) && c.syncOne() {
		return true
	}
	dl := c.deliverable()
	if len(dl) > 0 {
		i := dl[c.pick(len(dl))]
		if c.chance(k.PDup) {
			e := c.Inflight[i]
			cp := *e
			cp.Dup = true
			c.Stats["dup"]++
			c.Deliver(&cp)
			c.afterAPI(c.Nodes[e.To])
			return true
		}
		e := c.removeEnv(i)
		c.Deliver(e)
		c.afterAPI(c.Nodes[e.To])
		return true
	}
	// everything in flight that is due has been delivered; requested transactions are supplied next
	if c.supplyOne() {
		return true
	}
	if ex := c.expired(); len(ex) > 0 {
		n := ex[c.pick(len(ex))]
		n.FireTimer()
		c.afterAPI(n)
		return true
	}
	if k.PSyncLedger > 0 && c.syncOne() {
		return true
	}
	if t, ok := c.nextInstant(true); ok {
		c.Clock = t
		return true
	}
	return false
}

// supplyOne gives one requested transaction to one node.
func (c *Cluster) supplyOne() bool {
	for _, off := range c.Rng.Perm(len(c.Nodes)) {
		n := c.Nodes[off]
		if !n.Live() || len(n.Requested) == 0 {
			continue
		}
		var hs []H
		for h := range n.Requested {
			if _, ok := c.Universe[h]; ok {
				hs = append(hs, h)
			}
		}
		if len(hs) == 0 {
			continue
		}
		sortHashes(hs)
		h := hs[c.pick(len(hs))]
		if _, inPool := n.Pool[h]; !inPool && !c.Cfg.K.Sync && c.Rng.Intn(4) == 0 {
			// the transaction reaches the node's pool by gossip first; the application's
			// OnTransaction call for it comes later (the request stays open)
			n.Pool[h] = c.Universe[h]
			c.emit(&Event{Node: n.ID, Kind: KNet, Tx: c.Universe[h], Note: "gossiped-before-OnTransaction"})
			return true
		}
		n.SupplyTx(c.Universe[h])
		c.afterAPI(n)
		return true
	}
	return false
}

func sortHashes(hs []H) {
	for i := 1; i < len(hs); i++ {
		for j := i; j > 0 && lessH(hs[j], hs[j-1]); j-- {
			hs[j], hs[j-1] = hs[j-1], hs[j]
		}
	}
}

func lessH(a, b H) bool {
	for i := range a {
		if a[i] != b[i] {
			return a[i] < b[i]
		}
	}
	return false
}

func (c *Cluster) restartOne() bool {
	k := &c.Cfg.K
	var cand []*Node
	for _, id := range k.RestartSet {
		n := c.Nodes[id]
		if n.Live() && n.Restarts < k.MaxRestarts {
			cand = append(cand, n)
		}
	}
	if len(cand) == 0 {
		return false
	}
	n := cand[c.pick(len(cand))]
	c.lastFault = c.Clock
	n.Restart()
	c.afterAPI(n)
	return true
}

// SetCut partitions the given nodes from the rest (nil heals). Envelopes
// that cross the cut are dropped, including those already in flight.
func (c *Cluster) SetCut(set []int) {
	c.Cut = map[int]bool{}
	for _, id := range set {
		c.Cut[id] = true
	}
	c.lastFault = c.Clock
	if len(set) > 0 {
		kept := c.Inflight[:0]
		for _, e := range c.Inflight {
			if c.Cut[e.From] != c.Cut[e.To] {
				c.Stats["cut-drop"]++
				continue
			}
			kept = append(kept, e)
		}
		c.Inflight = kept
		c.emit(&Event{Node: -1, Kind: KNet, Note: "cut"})
	} else {
		c.emit(&Event{Node: -1, Kind: KNet, Note: "heal"})
	}
}

// LastFault returns the virtual instant of the last fault event.
func (c *Cluster) LastFault() int64 { return c.lastFault }

// NoteFault marks now as a fault instant.
func (c *Cluster) NoteFault() { c.lastFault = c.Clock }

// observerSync: a node that is outside the validator list of its current height is an ordinary
// full node; it obtains a finished block from its peers as soon as one of them has it.
func (c *Cluster) observerSync() bool {
	for _, n := range c.Nodes {
		if n.Role != Honest || !n.Live() || n.PendingReset || n.D.Validators == nil || n.D.MyIndex >= 0 {
			continue
		}
		for _, m := range c.Nodes {
			if m.ID == n.ID || m.Role != Honest {
				continue
			}
			if b := m.BlockAt(n.Height() + 1); b != nil {
				n.appendBlock(b, true)
				n.Accepted = append(n.Accepted, AcceptRec{Height: b.Idx, Hash: b.Hash(), Clock: c.Clock, Seq: c.seq, Inst: n.Restarts, Synced: true})
				c.Stats["observer-synced-blocks"]++
				c.doReset(n)
				return true
			}
		}
	}
	return false
}

// syncOne lets one node that is behind copy the next block from a peer.
func (c *Cluster) syncOne() bool {
	for _, off := range c.Rng.Perm(len(c.Nodes)) {
		n := c.Nodes[off]
		if !n.Live() || n.PendingReset {
			continue
		}
		for _, m := range c.Nodes {
			if m.ID == n.ID || m.Role == Silent || c.Cut[m.ID] != c.Cut[n.ID] {
				continue
			}
			if m.Role != Honest {
				continue
			}
			if b := m.BlockAt(n.Height() + 1); b != nil {
				// the application persists one or several blocks obtained from a peer and then
				// calls Reset once: the library skips the heights in between
				more := c.Rng.Intn(3) != 0
				for b != nil {
					n.appendBlock(b, true)
					n.Accepted = append(n.Accepted, AcceptRec{Height: b.Idx, Hash: b.Hash(), Clock: c.Clock, Seq: c.seq, Inst: n.Restarts, Synced: true})
					c.Stats["synced-blocks"]++
					if !more {
						break
					}
					b = m.BlockAt(n.Height() + 1)
				}
				if !c.Cfg.K.Sync && c.chance(c.Cfg.K.PDelayReset) {
					// the ledger has moved on but the application has not told the library yet: until Reset the
					// instance keeps working on its old height while the callbacks already answer for the new one
					n.PendingReset = true
					c.Stats["resets-delayed-after-ledger-sync"]++
					return true
				}
				c.doReset(n)
				return true
			}
		}
	}
	return false
}

// Run executes the scheduler until the run is done, stuck or capped.
func (c *Cluster) Run(hooks *Hooks) {
	for c.Steps < c.Cfg.MaxSteps {
		if c.Aborted {
			break
		}
		if hooks != nil && hooks.Done != nil {
			if hooks.Done(c) {
				break
			}
		} else if c.AllDone() {
			break
		}
		if c.Cfg.MaxClock > 0 && time.Duration(c.Clock) > c.Cfg.MaxClock {
			break
		}
		if !c.Step(hooks) {
			break
		}
	}
	for _, m := range c.Mons {
		m.End(c)
	}
}
