package vnet

import (
	"fmt"
	"testing"
	"time"
)

func TestSmoke(t *testing.T) {
	for _, amev := range []int64{-1, 0} {
		cfg := Config{Seed: 7, N: 4, Heights: 3, AMEV: amev, TPB: time.Second, TxPerBlock: 3, Epoch: time.Date(2001, 1, 1, 0, 0, 0, 0, time.UTC).UnixNano(), GenesisTs: 1}
		cfg.K.Sync = true
		c := NewCluster(cfg)
		for i := 0; i < 5; i++ {
			c.AddTx(false, 0)
		}
		c.StartAll(false)
		c.Run(nil)
		for _, e := range c.Trace {
			if e.Kind == KSend || e.Kind == KProcessBlock || e.Kind == KTimerReset || e.Kind == KPanic {
				fmt.Println(e)
			}
		}
		fmt.Println("steps", c.Steps, "clock", time.Duration(c.Clock), "aborted", c.Aborted, c.AbortWhy)
		for _, n := range c.Nodes {
			fmt.Println(n.ID, n.Height(), len(n.Accepted))
		}
	}
}
