package vnet

import (
	"crypto/sha256"
	"errors"
	"fmt"
	"math/rand"
	"runtime/debug"
	"sort"
	"time"

	"github.com/nspcc-dev/dbft"
	"go.uber.org/zap"
)

// Role of a participant.
type Role int

const (
	Honest    Role = iota // real instance + documented application loop
	Silent                // in the validator list, never runs
	Byzantine             // puppet real instance + adversary injections
)

func (r Role) String() string { return [...]string{"honest", "silent", "byzantine"}[r] }

// Kind of a trace event.
type Kind uint8

const (
	KAPICall Kind = iota
	KAPIRet
	KSend
	KTimerReset
	KTimerExtend
	KProcessBlock
	KProcessPreBlock
	KRequestTx
	KVerifyBlock
	KVerifyPreBlock
	KNewBlock
	KNewPreBlock
	KSign
	KStopTxFlow
	KEpoch
	KSubscribe
	KGetVerified
	KNewPrepReq
	KVerifyPayload
	KAdversary
	KRestart
	KNet
	KLedger
	KPanic
)

var kindNames = [...]string{"call", "ret", "send", "timer-reset", "timer-extend", "process-block", "process-preblock",
	"request-tx", "verify-block", "verify-preblock", "new-block", "new-preblock", "sign", "stop-tx-flow", "epoch",
	"subscribe", "get-verified", "new-prepreq", "verify-payload", "adversary", "restart", "net", "ledger", "panic"}

func (k Kind) String() string { return kindNames[k] }

// Event is one observation at the API/callback boundary.
type Event struct {
	Seq   int
	Clock int64
	Node  int
	Kind  Kind
	H     uint32 // node's BlockIndex at the instant
	V     byte   // node's ViewNumber at the instant
	API   string
	P     *Payload
	Blk   *Block
	PB    *PreBlock
	Tx    *Tx
	Hs    []H
	Dur   time.Duration
	OK    bool
	TH    uint32 // timer / OnTimeout height, previous height for KEpoch
	TV    byte   // timer / OnTimeout view, previous view for KEpoch
	Note  string
	Depth int // API nesting depth (0 outside any API call)
}

func (e *Event) String() string {
	s := fmt.Sprintf("#%d t=%s n%d (%d,%d) %s", e.Seq, time.Duration(e.Clock), e.Node, e.H, e.V, e.Kind)
	if e.API != "" {
		s += " " + e.API
	}
	if e.P != nil {
		s += " [" + e.P.Short() + "]"
	}
	if e.Blk != nil {
		s += fmt.Sprintf(" blk{i=%d #%s tx=%d}", e.Blk.Idx, e.Blk.Hash(), len(e.Blk.TxH))
	}
	if e.PB != nil {
		s += fmt.Sprintf(" pre{i=%d #%s}", e.PB.Idx, e.PB.Hash())
	}
	if e.Tx != nil {
		s += fmt.Sprintf(" tx%d", e.Tx.ID)
	}
	switch e.Kind {
	case KTimerReset, KTimerExtend:
		s += fmt.Sprintf(" (%d,%d) d=%s", e.TH, e.TV, e.Dur)
	case KEpoch:
		s += fmt.Sprintf(" from (%d,%d)", e.TH, e.TV)
	case KVerifyBlock, KVerifyPreBlock, KProcessBlock, KProcessPreBlock, KVerifyPayload:
		s += fmt.Sprintf(" ok=%v", e.OK)
	}
	if e.API == "OnTimeout" {
		s += fmt.Sprintf(" (%d,%d)", e.TH, e.TV)
	}
	if len(e.Hs) > 0 {
		s += fmt.Sprintf(" hashes=%d", len(e.Hs))
	}
	if e.Note != "" {
		s += " " + e.Note
	}
	return s
}

// Monitor observes a run online (Event) and offline (End).
type Monitor interface {
	Event(c *Cluster, e *Event)
	End(c *Cluster)
}

// Config of one run. Everything that is random is derived from Seed.
type Config struct {
	Seed       int64
	Profile    string
	N          int // validators in the initial list
	Watchers   int // additional nodes whose key is outside the validator list
	BaseHeight uint32
	Heights    int   // number of consecutive heights to decide
	AMEV       int64 // absolute enabling height, -1 = off
	TPB        time.Duration
	MaxTPB     time.Duration // 0 = dynamic block time off
	// TimeSchedule (optional): block time and maximum block time as functions of the height (the
	// callbacks are asked afresh at every Reset); MaxTPB > 0 must hold for the maximum to be used
	TimeSchedule func(h uint32) (time.Duration, time.Duration)
	TsInc      uint64
	Epoch      int64 // unix nanoseconds of virtual clock 0
	GenesisTs  uint64
	LatMin     time.Duration
	LatMax     time.Duration
	Roles      []Role // per node id (validators first, then watchers)
	WatchFlag  []bool // per node id: Config.WatchOnly() returns true
	TxPerBlock int
	MaxSteps   int
	MaxClock   time.Duration
	// TrySubscribeAlone: with MaxTPB == 0 first try to configure SubscribeForTxs alone.
	TrySubscribeAlone bool
	// KeyOf makes node j use the key pair of node KeyOf[j] (hot standby with the same identity).
	KeyOf map[int]int
	// ValSchedule returns node ids forming the validator list for the given block index.
	ValSchedule func(index uint32) []int
	// Knobs of the scheduler.
	K Knobs
}

// PanicInfo describes a panic that escaped a library call.
type PanicInfo struct {
	Node  int
	API   string
	Arg   string
	Value string
	Stack string
}

// Envelope is a payload in flight to one destination.
type Envelope struct {
	ID      int
	From    int
	To      int
	P       *Payload
	SentAt  int64
	ReadyAt int64
	Dup     bool
	Inj     bool // injected by an adversary
}

// Cluster is one run.
type Cluster struct {
	Cfg      Config
	Rng      *rand.Rand
	Clock    int64
	Nodes    []*Node
	Keys     []*Key
	Pubs     []*Pub
	Inflight []*Envelope
	Trace    []*Event
	Mons     []Monitor
	Panics   []PanicInfo
	Aborted  bool
	AbortWhy string
	Steps    int
	Universe map[H]*Tx // every transaction that exists in the run
	Genuine  map[H]*Payload
	GenList  []*Payload // genuine payloads in broadcast order
	Cut      map[int]bool
	Adv      *Adversary
	KeepAll  bool // keep full trace (otherwise only the tail is kept on long runs)
	// TxSchedule lists virtual instants (ascending) at which a new transaction appears.
	TxSchedule []int64

	deferred  []*Node // new-transaction notifications owed to nodes once the current API call has returned
	nextUID   int
	nextEnv   int
	nextTx    uint64
	seq       int
	Stats     map[string]int
	lastFault int64 // clock of the last fault event (GST candidate)
}

// Node is one participant: a real library instance plus the application model.
type Node struct {
	ID       int
	C        *Cluster
	Role     Role
	Key      *Key
	Pub      *Pub
	D        *dbft.DBFT[H]
	Timer    *VTimer
	Chain    []*Block // accepted / synced blocks above BaseHeight
	Pool     map[H]*Tx
	Watch    bool // WatchOnly() flag
	Dead     bool // panicked or switched off
	Restarts int
	// NoPoolOnSupply: the application hands requested transactions to OnTransaction without putting them
	// into the pool GetTx reads (e.g. transactions its pool policy refuses); a later proposal listing
	// them again makes the node request them again
	NoPoolOnSupply bool

	PendingReset bool
	ResetAt      int64      // virtual instant at which the application will call Reset (0: unset)
	Requested    map[H]bool // asked through RequestTx and not yet supplied
	Subscribed   bool
	depth        int
	lastH        uint32
	lastV        byte
	lastSet      bool
	apiSeq       int

	// fault injection for callbacks
	LateForks    [][2]*Block        // (ledger block, block decided later for the same height) pairs that differ
	InitHeight   uint32             // ledger height and tip reported to the library at the latest Start/Reset
	InitTip      H
	NilBlocks    int                // number of upcoming NewBlockFromContext / NewPreBlockFromContext calls that return nil (fuzzing only)
	FailPreBlock int                // number of upcoming ProcessPreBlock calls to fail
	FailBlock    int                // number of upcoming ProcessBlock calls to fail (anti-MEV heights only)
	RejectBlocks map[[2]uint32]bool // (height, view) whose block this node's verifier rejects
	RejectFrom   map[uint16]bool    // payload-level verification fails for these validator indices
	// RejectForgedBelow: payload-level verification fails for adversary-made payloads whose first
	// hash byte is below this value (policy validity is a property of the payload, the same on every node)
	RejectForgedBelow byte
	SignErr           bool

	Accepted []AcceptRec
}

// AcceptRec is one successful ProcessBlock on a node.
type AcceptRec struct {
	Height uint32
	View   byte
	Hash   H
	Clock  int64
	Seq    int
	Inst   int // instance number (restarts)
	Synced bool
}

func (c *Cluster) emit(e *Event) {
	e.Seq = c.seq
	c.seq++
	e.Clock = c.Clock
	if e.Node >= 0 && e.Node < len(c.Nodes) {
		n := c.Nodes[e.Node]
		if n.D != nil && n.D.Validators != nil {
			e.H, e.V = n.D.BlockIndex, n.D.ViewNumber
		}
		e.Depth = n.depth
	}
	c.Trace = append(c.Trace, e)
	for _, m := range c.Mons {
		m.Event(c, e)
	}
}

// Abort stops the run (harness-level reason, not a verdict).
func (c *Cluster) Abort(why string) {
	if !c.Aborted {
		c.Aborted, c.AbortWhy = true, why
	}
}

// NewCluster builds the cluster and starts nothing yet.
func NewCluster(cfg Config, mons ...Monitor) *Cluster {
	if cfg.TPB == 0 {
		cfg.TPB = time.Second
	}
	if cfg.TsInc == 0 {
		cfg.TsInc = uint64(time.Millisecond)
	}
	if cfg.MaxSteps == 0 {
		cfg.MaxSteps = 20000
	}
	if cfg.Heights == 0 {
		cfg.Heights = 3
	}
	total := cfg.N + cfg.Watchers
	c := &Cluster{
		Cfg:      cfg,
		Rng:      rand.New(rand.NewSource(cfg.Seed)),
		Mons:     mons,
		Universe: map[H]*Tx{},
		Genuine:  map[H]*Payload{},
		Cut:      map[int]bool{},
		Stats:    map[string]int{},
	}
	for i := 0; i < total; i++ {
		k, p := NewKey(cfg.Seed, i)
		c.Keys = append(c.Keys, k)
		c.Pubs = append(c.Pubs, p)
	}
	for j, i := range cfg.KeyOf {
		c.Keys[j], c.Pubs[j] = c.Keys[i], c.Pubs[i]
	}
	for i := 0; i < total; i++ {
		n := &Node{ID: i, C: c, Key: c.Keys[i], Pub: c.Pubs[i], Pool: map[H]*Tx{}, Requested: map[H]bool{},
			RejectBlocks: map[[2]uint32]bool{}, RejectFrom: map[uint16]bool{}}
		if i < len(cfg.Roles) {
			n.Role = cfg.Roles[i]
		}
		if i < len(cfg.WatchFlag) {
			n.Watch = cfg.WatchFlag[i]
		}
		n.Timer = &VTimer{n: n}
		c.Nodes = append(c.Nodes, n)
	}
	return c
}

// Validators returns node ids of the validator list for block index idx.
func (c *Cluster) Validators(idx uint32) []int {
	if c.Cfg.ValSchedule != nil {
		return c.Cfg.ValSchedule(idx)
	}
	res := make([]int, c.Cfg.N)
	for i := range res {
		res[i] = i
	}
	return res
}

// ValidatorIndex returns the index of node id in the list for block idx, or -1.
func (c *Cluster) ValidatorIndex(idx uint32, node int) int {
	for i, v := range c.Validators(idx) {
		if v == node {
			return i
		}
	}
	return -1
}

// NodeOfIndex returns the node that holds validator index vi at block idx.
func (c *Cluster) NodeOfIndex(idx uint32, vi int) *Node {
	l := c.Validators(idx)
	if vi < 0 || vi >= len(l) {
		return nil
	}
	return c.Nodes[l[vi]]
}

// GenesisHash is the hash of the block at BaseHeight.
func (c *Cluster) GenesisHash() H {
	return sha256.Sum256([]byte(fmt.Sprintf("genesis-%d-%d", c.Cfg.Seed, c.Cfg.BaseHeight)))
}

// NewTx creates a fresh transaction in the universe.
func (c *Cluster) NewTx(bad bool) *Tx {
	c.nextTx++
	t := &Tx{ID: c.nextTx, Bad: bad}
	c.Universe[t.Hash()] = t
	return t
}

// ---------------------------------------------------------------- ledger

func (n *Node) Height() uint32 { return n.C.Cfg.BaseHeight + uint32(len(n.Chain)) }

func (n *Node) TipHash() H {
	if len(n.Chain) == 0 {
		return n.C.GenesisHash()
	}
	return n.Chain[len(n.Chain)-1].Hash()
}

func (n *Node) TipTs() uint64 {
	if len(n.Chain) == 0 {
		return n.C.Cfg.GenesisTs
	}
	return n.Chain[len(n.Chain)-1].Ts
}

// BlockAt returns the node's block with index idx or nil.
func (n *Node) BlockAt(idx uint32) *Block {
	base := n.C.Cfg.BaseHeight
	if idx <= base || idx > n.Height() {
		return nil
	}
	return n.Chain[idx-base-1]
}

func (n *Node) appendBlock(b *Block, synced bool) {
	n.Chain = append(n.Chain, b)
	for _, h := range b.TxH {
		delete(n.Pool, h)
	}
	n.Requested = map[H]bool{}
	note := "accepted"
	if synced {
		note = "synced"
	}
	n.C.emit(&Event{Node: n.ID, Kind: KLedger, Blk: b, Note: note})
}

// IsValidator tells whether n takes an active part at its next height.
func (n *Node) IsValidator() bool {
	return !n.Watch && n.C.ValidatorIndex(n.Height()+1, n.ID) >= 0
}

// Live tells whether the node has a running instance.
func (n *Node) Live() bool { return n.D != nil && !n.Dead && n.Role != Silent }

// ---------------------------------------------------------------- timer

// VTimer implements dbft.Timer on the cluster's virtual clock. Its arming
// semantics mirror timer/timer.go.
type VTimer struct {
	n       *Node
	h       uint32
	v       byte
	start   int64
	d       time.Duration
	pending bool
	armed   bool // Reset was called at least once
	Gen     int
}

var _ dbft.Timer = (*VTimer)(nil)

func (t *VTimer) Now() time.Time {
	ns := t.n.C.Cfg.Epoch + t.n.C.Clock
	return time.Unix(ns/1e9, ns%1e9)
}

func (t *VTimer) Reset(h uint32, v byte, d time.Duration) {
	t.h, t.v, t.d, t.start = h, v, d, t.n.C.Clock
	t.pending, t.armed = true, true
	t.Gen++
	t.n.C.emit(&Event{Node: t.n.ID, Kind: KTimerReset, TH: h, TV: v, Dur: d})
}

func (t *VTimer) Extend(d time.Duration) {
	t.d += d
	if elapsed := time.Duration(t.n.C.Clock - t.start); t.d > elapsed {
		t.pending = true
	}
	t.n.C.emit(&Event{Node: t.n.ID, Kind: KTimerExtend, TH: t.h, TV: t.v, Dur: d})
}

func (t *VTimer) Height() uint32      { return t.h }
func (t *VTimer) View() byte          { return t.v }
func (t *VTimer) C() <-chan time.Time { return nil }

// Deadline returns the virtual instant of expiry and whether an expiry is owed.
func (t *VTimer) Deadline() (int64, bool) { return t.start + int64(t.d), t.pending }

// Total returns the total duration of the current arm.
func (t *VTimer) Total() time.Duration { return t.d }

// Armed tells whether Reset was ever called.
func (t *VTimer) Armed() bool { return t.armed }

// Pending tells whether an expiry is owed.
func (t *VTimer) Pending() bool { return t.pending }

// ---------------------------------------------------------------- instance

type nodeObs struct{ n *Node }

func (o nodeObs) OnSign(kind string, key dbft.PrivateKey, bh H) error {
	o.n.C.emit(&Event{Node: o.n.ID, Kind: KSign, Note: kind, Hs: []H{bh}, OK: key != nil})
	if o.n.SignErr {
		return errors.New("injected signing failure")
	}
	return nil
}

func (n *Node) amevAt(idx uint32) bool {
	return n.C.Cfg.AMEV >= 0 && uint32(n.C.Cfg.AMEV) <= idx
}

// BlockTimes returns what the TimePerBlock / MaxTimePerBlock callbacks answer right now: the
// configured constants, or the run's schedule for the height that follows the node's ledger.
func (n *Node) BlockTimes() (time.Duration, time.Duration) {
	cfg := &n.C.Cfg
	if cfg.TimeSchedule != nil {
		return cfg.TimeSchedule(n.Height() + 1)
	}
	return cfg.TPB, cfg.MaxTPB
}

// NewInstance creates a fresh real library instance for the node.
func (n *Node) NewInstance() error {
	c := n.C
	cfg := c.Cfg
	opts := []func(*dbft.Config[H]){
		dbft.WithTimer[H](n.Timer),
		dbft.WithLogger[H](zap.NewNop()),
		dbft.WithTimePerBlock[H](func() time.Duration { t, _ := n.BlockTimes(); return t }),
		dbft.WithTimestampIncrement[H](cfg.TsInc),
		dbft.WithAntiMEVExtensionEnablingHeight[H](cfg.AMEV),
		dbft.WithGetKeyPair[H](func(pubs []dbft.PublicKey) (int, dbft.PrivateKey, dbft.PublicKey) {
			for i, p := range pubs {
				if p == dbft.PublicKey(n.Pub) {
					return i, n.Key, n.Pub
				}
			}
			return -1, nil, nil
		}),
		dbft.WithNewBlockFromContext[H](func(ctx *dbft.Context[H]) dbft.Block[H] {
			var b *Block
			if n.NilBlocks > 0 {
				// like the reference newBlockFromContext, which answers nil when it cannot build a block
				n.NilBlocks--
				c.emit(&Event{Node: n.ID, Kind: KNewBlock, Note: "nil"})
				return nil
			}
			if n.amevAt(ctx.BlockIndex) {
				pb, _ := ctx.PreBlock().(*PreBlock)
				if pb == nil {
					c.emit(&Event{Node: n.ID, Kind: KNewBlock, Note: "no-preblock"})
					pb = NewPreBlock(ctx.BlockIndex, ctx.PrevHash, ctx.Timestamp, ctx.Nonce, ctx.TransactionHashes, nodeObs{n})
				}
				b = NewAMEVBlock(pb, nodeObs{n})
			} else {
				b = NewBlock(ctx.BlockIndex, ctx.PrevHash, ctx.Timestamp, ctx.Nonce, ctx.TransactionHashes, nodeObs{n})
			}
			c.emit(&Event{Node: n.ID, Kind: KNewBlock, Blk: b})
			return b
		}),
		dbft.WithRequestTx[H](func(hs ...H) {
			cp := append([]H(nil), hs...)
			for _, h := range cp {
				n.Requested[h] = true
			}
			c.emit(&Event{Node: n.ID, Kind: KRequestTx, Hs: cp})
		}),
		dbft.WithStopTxFlow[H](func() {
			c.emit(&Event{Node: n.ID, Kind: KStopTxFlow})
			n.noteEpoch()
		}),
		dbft.WithGetTx[H](func(h H) dbft.Transaction[H] {
			if t, ok := n.Pool[h]; ok {
				return t
			}
			return nil
		}),
		dbft.WithGetVerified[H](func() []dbft.Transaction[H] {
			l := n.verified()
			hs := make([]H, len(l))
			for i, t := range l {
				hs[i] = t.Hash()
			}
			c.emit(&Event{Node: n.ID, Kind: KGetVerified, Hs: hs})
			if len(l) == 0 && c.chance(c.Cfg.K.PTxAtPoolRead) {
				c.AddTx(false, 0) // arrives just after the pool was read
			}
			return l
		}),
		dbft.WithVerifyBlock[H](func(b dbft.Block[H]) bool {
			if b == nil {
				c.emit(&Event{Node: n.ID, Kind: KVerifyBlock, Note: "nil", OK: false})
				return false
			}
			bb := b.(*Block)
			ok := n.txsValid(b.Transactions()) && !n.RejectBlocks[[2]uint32{n.D.BlockIndex, uint32(n.D.ViewNumber)}]
			c.emit(&Event{Node: n.ID, Kind: KVerifyBlock, Blk: bb, OK: ok})
			return ok
		}),
		dbft.WithBroadcast[H](func(m dbft.ConsensusPayload[H]) {
			p := m.(*Payload)
			c.emit(&Event{Node: n.ID, Kind: KSend, P: p})
			c.broadcast(n, p)
		}),
		dbft.WithProcessBlock[H](func(b dbft.Block[H]) error {
			bb := b.(*Block)
			fail := n.FailBlock > 0 && n.amevAt(bb.Idx)
			c.emit(&Event{Node: n.ID, Kind: KProcessBlock, Blk: bb, OK: !fail})
			if fail {
				n.FailBlock--
				return errors.New("injected block processing failure")
			}
			if bb.Idx == n.Height()+1 && bb.Prev == n.TipHash() {
				n.Accepted = append(n.Accepted, AcceptRec{Height: bb.Idx, View: n.D.ViewNumber, Hash: bb.Hash(), Clock: c.Clock, Seq: c.seq, Inst: n.Restarts})
				n.appendBlock(bb, false)
				n.PendingReset = true
			} else if ex := n.BlockAt(bb.Idx); ex != nil {
				// the ledger got this height from its peers already and Reset is still pending: the application
				// ignores the late decision - unless it names another block, which is a fork
				c.Stats["decisions-for-heights-already-synced"]++
				if ex.Hash() != bb.Hash() {
					n.LateForks = append(n.LateForks, [2]*Block{ex, bb})
				}
			}
			return nil
		}),
		dbft.WithGetBlock[H](func(h H) dbft.Block[H] { return nil }),
		dbft.WithWatchOnly[H](func() bool { return n.Watch }),
		dbft.WithCurrentHeight[H](func() uint32 { return n.Height() }),
		dbft.WithCurrentBlockHash[H](func() H { return n.TipHash() }),
		dbft.WithGetValidators[H](func(...dbft.Transaction[H]) []dbft.PublicKey {
			ids := c.Validators(n.Height() + 1)
			res := make([]dbft.PublicKey, len(ids))
			for i, id := range ids {
				res[i] = c.Pubs[id]
			}
			return res
		}),
		dbft.WithNewConsensusPayload[H](func(ctx *dbft.Context[H], t dbft.MessageType, msg any) dbft.ConsensusPayload[H] {
			c.nextUID++
			return &Payload{T: t, Hgt: ctx.BlockIndex, View: ctx.ViewNumber, Idx: uint16(ctx.MyIndex), Body: msg, UID: c.nextUID, Origin: n.ID}
		}),
		dbft.WithNewPrepareRequest[H](func(ts, nonce uint64, hs []H) dbft.PrepareRequest[H] {
			cp := make([]H, len(hs))
			copy(cp, hs)
			c.emit(&Event{Node: n.ID, Kind: KNewPrepReq, Hs: cp, Note: fmt.Sprintf("ts=%d nonce=%d", ts, nonce), Dur: time.Duration(ts)})
			return &PrepReq{Ts: ts, Nc: nonce, Hashes: cp}
		}),
		dbft.WithNewPrepareResponse[H](func(h H) dbft.PrepareResponse[H] { return &PrepResp{Prep: h} }),
		dbft.WithNewChangeView[H](func(nv byte, r dbft.ChangeViewReason, ts uint64) dbft.ChangeView {
			return &ChView{NewView: nv, Rsn: r, Ts: ts}
		}),
		dbft.WithNewCommit[H](func(sig []byte) dbft.Commit { return &CommitB{Sig: append([]byte(nil), sig...)} }),
		dbft.WithNewRecoveryRequest[H](func(ts uint64) dbft.RecoveryRequest { return &RecReq{Ts: ts} }),
		dbft.WithNewRecoveryMessage[H](func() dbft.RecoveryMessage[H] { return &RecMsg{} }),
		dbft.WithVerifyPrepareRequest[H](n.verifyPayload),
		dbft.WithVerifyPrepareResponse[H](n.verifyPayload),
		dbft.WithVerifyCommit[H](n.verifyPayload),
	}
	if cfg.AMEV >= 0 {
		opts = append(opts,
			dbft.WithNewPreBlockFromContext[H](func(ctx *dbft.Context[H]) dbft.PreBlock[H] {
				if n.NilBlocks > 0 {
					n.NilBlocks--
					c.emit(&Event{Node: n.ID, Kind: KNewPreBlock, Note: "nil"})
					return nil
				}
				pb := NewPreBlock(ctx.BlockIndex, ctx.PrevHash, ctx.Timestamp, ctx.Nonce, ctx.TransactionHashes, nodeObs{n})
				c.emit(&Event{Node: n.ID, Kind: KNewPreBlock, PB: pb})
				return pb
			}),
			dbft.WithProcessPreBlock[H](func(b dbft.PreBlock[H]) error {
				pb := b.(*PreBlock)
				fail := n.FailPreBlock > 0
				c.emit(&Event{Node: n.ID, Kind: KProcessPreBlock, PB: pb, OK: !fail})
				if fail {
					n.FailPreBlock--
					return errors.New("injected pre-block processing failure")
				}
				return nil
			}),
			dbft.WithNewPreCommit[H](func(d []byte) dbft.PreCommit { return &PreCommitB{D: append([]byte(nil), d...)} }),
			dbft.WithVerifyPreBlock[H](func(b dbft.PreBlock[H]) bool {
				if b == nil {
					c.emit(&Event{Node: n.ID, Kind: KVerifyPreBlock, Note: "nil", OK: false})
					return false
				}
				pb := b.(*PreBlock)
				ok := n.txsValid(b.Transactions()) && !n.RejectBlocks[[2]uint32{n.D.BlockIndex, uint32(n.D.ViewNumber)}]
				c.emit(&Event{Node: n.ID, Kind: KVerifyPreBlock, PB: pb, OK: ok})
				return ok
			}),
			dbft.WithVerifyPreCommit[H](n.verifyPayload),
		)
	}
	if cfg.MaxTPB > 0 {
		opts = append(opts,
			dbft.WithMaxTimePerBlock[H](func() time.Duration { _, t := n.BlockTimes(); return t }),
			dbft.WithSubscribeForTxs[H](func() {
				n.Subscribed = true
				c.emit(&Event{Node: n.ID, Kind: KSubscribe})
			}),
		)
	}
	if cfg.MaxTPB == 0 && cfg.TrySubscribeAlone {
		// a configuration with the subscription callback but without the maximum block time: the
		// library refuses it (then the proper configuration is used); if it does not, the run goes on with it
		alt := append(append([]func(*dbft.Config[H]){}, opts...), dbft.WithSubscribeForTxs[H](func() {
			n.Subscribed = true
			c.emit(&Event{Node: n.ID, Kind: KSubscribe})
		}))
		if d, err := dbft.New[H](alt...); err == nil {
			c.Stats["subscription-without-max-accepted"]++
			n.D = d
			n.lastSet = false
			return nil
		}
		c.Stats["subscription-without-max-refused"]++
	}
	d, err := dbft.New[H](opts...)
	if err != nil {
		return err
	}
	n.D = d
	n.lastSet = false
	return nil
}

func (n *Node) verifyPayload(p dbft.ConsensusPayload[H]) error {
	ok := !n.RejectFrom[p.ValidatorIndex()]
	if q := p.(*Payload); q.Forged && n.RejectForgedBelow > 0 && byte(q.UID*37) < n.RejectForgedBelow { // by payload id: the same on every node, reproducible
		ok = false
	}
	n.C.emit(&Event{Node: n.ID, Kind: KVerifyPayload, P: p.(*Payload), OK: ok})
	if !ok {
		return errors.New("payload rejected by policy")
	}
	return nil
}

func (n *Node) txsValid(txs []dbft.Transaction[H]) bool {
	for _, t := range txs {
		if x, ok := t.(*Tx); !ok || x == nil || x.Bad {
			return false
		}
	}
	return true
}

// verified returns the node's proposable transactions in a deterministic order.
func (n *Node) verified() []dbft.Transaction[H] {
	ids := make([]uint64, 0, len(n.Pool))
	for _, t := range n.Pool {
		if !t.Bad {
			ids = append(ids, t.ID)
		}
	}
	sort.Slice(ids, func(i, j int) bool { return ids[i] < ids[j] })
	if max := n.C.Cfg.TxPerBlock; len(ids) > max {
		ids = ids[:max]
	}
	res := make([]dbft.Transaction[H], len(ids))
	for i, id := range ids {
		res[i] = n.Pool[TxHash(id)]
	}
	return res
}

func (n *Node) noteEpoch() {
	h, v := n.D.BlockIndex, n.D.ViewNumber
	if n.lastSet && h == n.lastH && v == n.lastV {
		return
	}
	e := &Event{Node: n.ID, Kind: KEpoch, TH: n.lastH, TV: n.lastV}
	if !n.lastSet {
		e.Note = "first"
	}
	n.lastH, n.lastV, n.lastSet = h, v, true
	n.C.emit(e)
}

// call wraps every API call: events, panic capture.
func (n *Node) call(api string, arg *Event, f func()) {
	if n.D == nil || n.Dead || n.C.Aborted {
		return
	}
	c := n.C
	n.apiSeq++
	ev := &Event{Node: n.ID, Kind: KAPICall, API: api}
	if arg != nil {
		ev.P, ev.Tx, ev.TH, ev.TV, ev.Note = arg.P, arg.Tx, arg.TH, arg.TV, arg.Note
	}
	c.emit(ev)
	n.depth++
	func() {
		defer func() {
			if r := recover(); r != nil {
				n.depth = 0
				n.Dead = true
				pi := PanicInfo{Node: n.ID, API: api, Value: fmt.Sprint(r), Stack: string(debug.Stack())}
				if arg != nil && arg.P != nil {
					pi.Arg = arg.P.Short()
				}
				c.Panics = append(c.Panics, pi)
				c.emit(&Event{Node: n.ID, Kind: KPanic, API: api, Note: pi.Value})
				c.Abort("panic in " + api + ": " + pi.Value)
			}
		}()
		f()
	}()
	if n.Dead {
		return
	}
	n.depth--
	ret := &Event{Node: n.ID, Kind: KAPIRet, API: api}
	if arg != nil {
		ret.P, ret.Tx, ret.TH, ret.TV = arg.P, arg.Tx, arg.TH, arg.TV
	}
	c.emit(ret)
}

// Start creates the instance (if needed) and calls Start.
func (n *Node) Start() {
	if n.D == nil {
		if err := n.NewInstance(); err != nil {
			n.C.Abort("dbft.New: " + err.Error())
			return
		}
	}
	n.PendingReset = false
	n.InitHeight, n.InitTip = n.Height(), n.TipHash()
	n.call("Start", nil, func() { n.D.Start(n.TipTs()) })
}

// Reset calls Reset with the tip timestamp (documented application loop).
func (n *Node) Reset() {
	n.PendingReset = false
	n.ResetAt = 0
	n.InitHeight, n.InitTip = n.Height(), n.TipHash()
	n.call("Reset", nil, func() { n.D.Reset(n.TipTs()) })
}

// Receive delivers a payload.
func (n *Node) Receive(p *Payload) {
	n.call("OnReceive", &Event{P: p}, func() { n.D.OnReceive(p) })
}

// Timeout calls OnTimeout(h, v).
func (n *Node) Timeout(h uint32, v byte, note string) {
	n.call("OnTimeout", &Event{TH: h, TV: v, Note: note}, func() { n.D.OnTimeout(h, v) })
}

// SupplyTx adds the transaction to the pool and calls OnTransaction.
func (n *Node) SupplyTx(t *Tx) {
	if !n.NoPoolOnSupply {
		n.Pool[t.Hash()] = t
	}
	delete(n.Requested, t.Hash())
	n.call("OnTransaction", &Event{Tx: t}, func() { n.D.OnTransaction(t) })
}

// NewTxNotify calls OnNewTransaction.
func (n *Node) NewTxNotify() {
	n.call("OnNewTransaction", nil, func() { n.D.OnNewTransaction() })
}

// FireTimer delivers the owed expiry the way the documented event loop does.
func (n *Node) FireTimer() {
	n.Timer.pending = false
	n.Timeout(n.Timer.h, n.Timer.v, "expiry")
}

// Restart discards the instance and starts a new one from the ledger (amnesia).
func (n *Node) Restart() {
	n.Restarts++
	n.D = nil
	n.Timer = &VTimer{n: n}
	n.Requested = map[H]bool{}
	n.Subscribed = false
	n.C.emit(&Event{Node: n.ID, Kind: KRestart})
	n.Start()
}

// ---------------------------------------------------------------- network

func (c *Cluster) latency() int64 {
	lo, hi := int64(c.Cfg.LatMin), int64(c.Cfg.LatMax)
	if hi <= lo {
		return lo
	}
	return lo + c.Rng.Int63n(hi-lo+1)
}

func (c *Cluster) broadcast(from *Node, p *Payload) {
	if from.Role == Byzantine && c.Adv != nil {
		c.Adv.observeOwn(from, p)
		if !c.Adv.passPuppet(from, p) {
			return
		}
	} else {
		h := p.Hash()
		if _, ok := c.Genuine[h]; !ok {
			c.Genuine[h] = p
			c.GenList = append(c.GenList, p)
		}
	}
	for _, to := range c.Nodes {
		if to.ID == from.ID || to.Role == Silent {
			continue
		}
		if c.Cut[from.ID] != c.Cut[to.ID] {
			c.Stats["cut-drop"]++
			continue
		}
		c.enqueue(from.ID, to.ID, p, false)
	}
}

func (c *Cluster) enqueue(from, to int, p *Payload, inj bool) *Envelope {
	c.nextEnv++
	e := &Envelope{ID: c.nextEnv, From: from, To: to, P: p, SentAt: c.Clock, ReadyAt: c.Clock + c.latency(), Inj: inj}
	if c.Cfg.K.SlowExtra > 0 && to == c.Cfg.K.SlowNode {
		e.ReadyAt += int64(c.Cfg.K.SlowExtra)
	}
	c.Inflight = append(c.Inflight, e)
	return e
}

func (c *Cluster) removeEnv(i int) *Envelope {
	e := c.Inflight[i]
	c.Inflight = append(c.Inflight[:i], c.Inflight[i+1:]...)
	return e
}

// Deliver hands envelope e to its destination (the envelope must have been removed from Inflight).
func (c *Cluster) Deliver(e *Envelope) {
	to := c.Nodes[e.To]
	if !to.Live() {
		return
	}
	c.Stats["deliver"]++
	to.Receive(e.P)
}
