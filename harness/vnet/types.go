// Package vnet is a deterministic virtual-time cluster harness around real
// dbft.DBFT instances: harness-side payloads, blocks, keys, timer, network,
// application model, adversaries and a seeded scheduler. Nothing of the
// library is stubbed; every callback is an observation point for monitors.
package vnet

import (
	"bytes"
	"crypto/sha256"
	"encoding/binary"
	"encoding/hex"
	"errors"
	"fmt"
	"sync/atomic"

	"github.com/nspcc-dev/dbft"
)

// H is the hash type the library is instantiated with.
type H [32]byte

func (h H) String() string { return hex.EncodeToString(h[:6]) }

// IsZero tells whether h is the zero hash.
func (h H) IsZero() bool { return h == H{} }

// Tx is a harness transaction. Bad transactions make every block that
// contains them fail application-level verification.
type Tx struct {
	ID  uint64
	Bad bool
}

// TxHash returns the hash of transaction id.
func TxHash(id uint64) (h H) {
	h[0] = 't'
	binary.LittleEndian.PutUint64(h[1:], id)
	return
}

// Hash implements dbft.Transaction.
func (t *Tx) Hash() H { return TxHash(t.ID) }

// Key is a validator private key (hash-based MAC "signatures": unforgeable
// inside the harness because adversaries never read other keys' secrets).
type Key struct {
	ID     int
	secret [32]byte
}

// Pub is the public key matching Key. It carries the secret privately so
// that Verify can recompute the MAC; only Verify reads it.
type Pub struct {
	ID     int
	secret *[32]byte
}

// NewKey derives key pair id deterministically from the run seed.
func NewKey(seed int64, id int) (*Key, *Pub) {
	var b [16]byte
	binary.LittleEndian.PutUint64(b[:], uint64(seed))
	binary.LittleEndian.PutUint64(b[8:], uint64(id))
	k := &Key{ID: id, secret: sha256.Sum256(append([]byte("key"), b[:]...))}
	return k, &Pub{ID: id, secret: &k.secret}
}

func mac(secret *[32]byte, dom string, data []byte) []byte {
	h := sha256.New()
	h.Write(secret[:])
	h.Write([]byte(dom))
	h.Write(data)
	a := h.Sum(nil)
	h.Reset()
	h.Write(data)
	h.Write([]byte(dom))
	h.Write(secret[:])
	return h.Sum(a)
}

// ---------------------------------------------------------------- payloads

// Bodies of consensus payloads.
type (
	PrepReq struct {
		Ts     uint64
		Nc     uint64
		Hashes []H
	}
	PrepResp struct{ Prep H }
	ChView   struct {
		NewView byte
		Rsn     dbft.ChangeViewReason
		Ts      uint64
	}
	CommitB    struct{ Sig []byte }
	PreCommitB struct{ D []byte }
	RecReq     struct{ Ts uint64 }
	// RecMsg embeds whole payloads (as a transport that carries the original
	// witnesses does), so embedded payloads keep their hashes and views.
	RecMsg struct {
		PrepReq    *Payload
		PrepResps  []*Payload
		ChViews    []*Payload
		PreCommits []*Payload
		Commits    []*Payload
	}
)

func (p *PrepReq) Timestamp() uint64            { return p.Ts }
func (p *PrepReq) Nonce() uint64                { return p.Nc }
func (p *PrepReq) TransactionHashes() []H       { return p.Hashes }
func (p *PrepResp) PreparationHash() H          { return p.Prep }
func (c *ChView) NewViewNumber() byte           { return c.NewView }
func (c *ChView) Reason() dbft.ChangeViewReason { return c.Rsn }
func (c *CommitB) Signature() []byte            { return c.Sig }
func (c *PreCommitB) Data() []byte              { return c.D }
func (r *RecReq) Timestamp() uint64             { return r.Ts }

// Payload implements dbft.ConsensusPayload[H].
type Payload struct {
	T    dbft.MessageType
	Hgt  uint32
	View byte
	Idx  uint16
	Body any

	// harness bookkeeping, not part of the hash
	UID    int  // unique id of the payload object in the run
	Origin int  // node id of the creator (-1: unknown)
	Forged bool // created by an adversary
}

var _ dbft.ConsensusPayload[H] = (*Payload)(nil)

// GetterMismatch is the panic value raised when the library asks a payload
// for a body of another type (the reference payloads panic with a failed
// type assertion in the same situation).
type GetterMismatch struct {
	Have dbft.MessageType
	Want string
}

func (g GetterMismatch) Error() string {
	return fmt.Sprintf("payload of type %s asked for %s body", g.Have, g.Want)
}

func (p *Payload) ViewNumber() byte           { return p.View }
func (p *Payload) Type() dbft.MessageType     { return p.T }
func (p *Payload) Payload() any               { return p.Body }
func (p *Payload) ValidatorIndex() uint16     { return p.Idx }
func (p *Payload) SetValidatorIndex(i uint16) { p.Idx = i }
func (p *Payload) Height() uint32             { return p.Hgt }

func (p *Payload) GetChangeView() dbft.ChangeView {
	if b, ok := p.Body.(*ChView); ok {
		return b
	}
	panic(GetterMismatch{p.T, "ChangeView"})
}

func (p *Payload) GetPrepareRequest() dbft.PrepareRequest[H] {
	if b, ok := p.Body.(*PrepReq); ok {
		return b
	}
	panic(GetterMismatch{p.T, "PrepareRequest"})
}

func (p *Payload) GetPrepareResponse() dbft.PrepareResponse[H] {
	if b, ok := p.Body.(*PrepResp); ok {
		return b
	}
	panic(GetterMismatch{p.T, "PrepareResponse"})
}

func (p *Payload) GetPreCommit() dbft.PreCommit {
	if b, ok := p.Body.(*PreCommitB); ok {
		return b
	}
	panic(GetterMismatch{p.T, "PreCommit"})
}

func (p *Payload) GetCommit() dbft.Commit {
	if b, ok := p.Body.(*CommitB); ok {
		return b
	}
	panic(GetterMismatch{p.T, "Commit"})
}

func (p *Payload) GetRecoveryRequest() dbft.RecoveryRequest {
	if b, ok := p.Body.(*RecReq); ok {
		return b
	}
	panic(GetterMismatch{p.T, "RecoveryRequest"})
}

func (p *Payload) GetRecoveryMessage() dbft.RecoveryMessage[H] {
	if b, ok := p.Body.(*RecMsg); ok {
		return b
	}
	panic(GetterMismatch{p.T, "RecoveryMessage"})
}

func putU64(b *bytes.Buffer, v uint64) {
	var x [8]byte
	binary.LittleEndian.PutUint64(x[:], v)
	b.Write(x[:])
}

func (p *Payload) encode(b *bytes.Buffer) {
	b.WriteByte(byte(p.T))
	putU64(b, uint64(p.Hgt))
	b.WriteByte(p.View)
	putU64(b, uint64(p.Idx))
	switch x := p.Body.(type) {
	case *PrepReq:
		putU64(b, x.Ts)
		putU64(b, x.Nc)
		putU64(b, uint64(len(x.Hashes)))
		for _, h := range x.Hashes {
			b.Write(h[:])
		}
	case *PrepResp:
		b.Write(x.Prep[:])
	case *ChView:
		b.WriteByte(x.NewView)
		b.WriteByte(byte(x.Rsn))
		putU64(b, x.Ts)
	case *CommitB:
		putU64(b, uint64(len(x.Sig)))
		b.Write(x.Sig)
	case *PreCommitB:
		putU64(b, uint64(len(x.D)))
		b.Write(x.D)
	case *RecReq:
		putU64(b, x.Ts)
	case *RecMsg:
		if x.PrepReq != nil {
			b.WriteByte(1)
			h := x.PrepReq.Hash()
			b.Write(h[:])
		} else {
			b.WriteByte(0)
		}
		for _, l := range [][]*Payload{x.PrepResps, x.ChViews, x.PreCommits, x.Commits} {
			putU64(b, uint64(len(l)))
			for _, e := range l {
				h := e.Hash()
				b.Write(h[:])
			}
		}
	case nil:
		b.WriteByte(0xfe)
	}
}

// Hash implements dbft.ConsensusPayload: a function of type, height, view,
// validator index and body only.
func (p *Payload) Hash() H {
	var b bytes.Buffer
	p.encode(&b)
	return sha256.Sum256(b.Bytes())
}

// Clone returns a deep copy (same content, same hash, new object).
func (p *Payload) Clone() *Payload {
	q := *p
	switch x := p.Body.(type) {
	case *PrepReq:
		y := *x
		y.Hashes = append([]H(nil), x.Hashes...)
		if x.Hashes == nil {
			y.Hashes = nil
		}
		q.Body = &y
	case *PrepResp:
		y := *x
		q.Body = &y
	case *ChView:
		y := *x
		q.Body = &y
	case *CommitB:
		q.Body = &CommitB{Sig: append([]byte(nil), x.Sig...)}
	case *PreCommitB:
		q.Body = &PreCommitB{D: append([]byte(nil), x.D...)}
	case *RecReq:
		y := *x
		q.Body = &y
	case *RecMsg:
		y := &RecMsg{}
		if x.PrepReq != nil {
			y.PrepReq = x.PrepReq.Clone()
		}
		for _, e := range x.PrepResps {
			y.PrepResps = append(y.PrepResps, e.Clone())
		}
		for _, e := range x.ChViews {
			y.ChViews = append(y.ChViews, e.Clone())
		}
		for _, e := range x.PreCommits {
			y.PreCommits = append(y.PreCommits, e.Clone())
		}
		for _, e := range x.Commits {
			y.Commits = append(y.Commits, e.Clone())
		}
		q.Body = y
	}
	return &q
}

// Short renders the payload for traces.
func (p *Payload) Short() string {
	s := fmt.Sprintf("%s h=%d v=%d i=%d", p.T, p.Hgt, p.View, p.Idx)
	switch x := p.Body.(type) {
	case *PrepReq:
		s += fmt.Sprintf(" ts=%d tx=%d #%s", x.Ts, len(x.Hashes), p.Hash())
	case *PrepResp:
		s += " for=" + x.Prep.String()
	case *ChView:
		s += fmt.Sprintf(" new=%d rsn=%s", x.NewView, x.Rsn)
	case *CommitB:
		s += " sig=" + hex.EncodeToString(x.Sig[:min(4, len(x.Sig))])
	case *PreCommitB:
		s += " d=" + hex.EncodeToString(x.D[:min(4, len(x.D))])
	case *RecMsg:
		s += fmt.Sprintf(" req=%v resp=%d cv=%d pc=%d c=%d", x.PrepReq != nil, len(x.PrepResps), len(x.ChViews), len(x.PreCommits), len(x.Commits))
	}
	return s
}

// ---- RecMsg implements dbft.RecoveryMessage[H]

var _ dbft.RecoveryMessage[H] = (*RecMsg)(nil)

func (m *RecMsg) AddPayload(p dbft.ConsensusPayload[H]) {
	q, ok := p.(*Payload)
	if !ok {
		return
	}
	c := q.Clone()
	switch q.T {
	case dbft.PrepareRequestType:
		m.PrepReq = c
	case dbft.PrepareResponseType:
		m.PrepResps = append(m.PrepResps, c)
	case dbft.ChangeViewType:
		m.ChViews = append(m.ChViews, c)
	case dbft.PreCommitType:
		m.PreCommits = append(m.PreCommits, c)
	case dbft.CommitType:
		m.Commits = append(m.Commits, c)
	}
}

func asIface(l []*Payload) []dbft.ConsensusPayload[H] {
	res := make([]dbft.ConsensusPayload[H], len(l))
	for i, p := range l {
		res[i] = p.Clone()
	}
	return res
}

func (m *RecMsg) GetPrepareRequest(_ dbft.ConsensusPayload[H], _ []dbft.PublicKey, _ uint16) dbft.ConsensusPayload[H] {
	if m.PrepReq == nil {
		return nil
	}
	return m.PrepReq.Clone()
}

func (m *RecMsg) GetPrepareResponses(_ dbft.ConsensusPayload[H], _ []dbft.PublicKey) []dbft.ConsensusPayload[H] {
	return asIface(m.PrepResps)
}

func (m *RecMsg) GetChangeViews(_ dbft.ConsensusPayload[H], _ []dbft.PublicKey) []dbft.ConsensusPayload[H] {
	return asIface(m.ChViews)
}

func (m *RecMsg) GetPreCommits(_ dbft.ConsensusPayload[H], _ []dbft.PublicKey) []dbft.ConsensusPayload[H] {
	return asIface(m.PreCommits)
}

func (m *RecMsg) GetCommits(_ dbft.ConsensusPayload[H], _ []dbft.PublicKey) []dbft.ConsensusPayload[H] {
	return asIface(m.Commits)
}

func (m *RecMsg) PreparationHash() *H {
	if m.PrepReq != nil {
		h := m.PrepReq.Hash()
		return &h
	}
	if len(m.PrepResps) > 0 {
		h := m.PrepResps[0].Body.(*PrepResp).Prep
		return &h
	}
	return nil
}

// Embedded lists every payload embedded in the recovery message.
func (m *RecMsg) Embedded() []*Payload {
	var res []*Payload
	if m.PrepReq != nil {
		res = append(res, m.PrepReq)
	}
	res = append(res, m.PrepResps...)
	res = append(res, m.ChViews...)
	res = append(res, m.PreCommits...)
	res = append(res, m.Commits...)
	return res
}

// ---------------------------------------------------------------- blocks

// Header is the hashable content shared by Block and PreBlock.
type Header struct {
	Idx   uint32
	Prev  H
	Ts    uint64
	Nonce uint64
	TxH   []H
}

func (hd *Header) enc(dom string, extra *H) []byte {
	var b bytes.Buffer
	b.WriteString(dom)
	putU64(&b, uint64(hd.Idx))
	b.Write(hd.Prev[:])
	putU64(&b, hd.Ts)
	putU64(&b, hd.Nonce)
	putU64(&b, uint64(len(hd.TxH)))
	for _, h := range hd.TxH {
		b.Write(h[:])
	}
	if extra != nil {
		b.WriteByte(1)
		b.Write(extra[:])
	}
	return b.Bytes()
}

// SignObserver is told about every signing / data-generation call.
type SignObserver interface {
	OnSign(kind string, key dbft.PrivateKey, blockHash H) error
}

// Block implements dbft.Block[H].
type Block struct {
	Header
	Env *H // anti-MEV envelope transaction hash (nil without the extension)

	txs []dbft.Transaction[H]
	sig []byte
	obs SignObserver
}

var _ dbft.Block[H] = (*Block)(nil)

// NewBlock builds a block from header fields (ordinary dBFT 2.0 block).
func NewBlock(idx uint32, prev H, ts, nonce uint64, txh []H, obs SignObserver) *Block {
	return &Block{Header: Header{idx, prev, ts, nonce, append([]H(nil), txh...)}, obs: obs}
}

// EnvelopeOf is the deterministic "decrypted envelope" transaction id that
// the final anti-MEV block adds to the pre-block's transactions. It is a
// function of the pre-block alone, as threshold decryption is.
func EnvelopeOf(hd *Header) *Tx {
	s := sha256.Sum256(hd.enc("env", nil))
	return &Tx{ID: binary.LittleEndian.Uint64(s[:8]) | 1<<63}
}

// NewAMEVBlock builds the final block from a pre-block.
func NewAMEVBlock(pb *PreBlock, obs SignObserver) *Block {
	env := EnvelopeOf(&pb.Header)
	eh := env.Hash()
	b := &Block{Header: Header{pb.Idx, pb.Prev, pb.Ts, pb.Nonce, append([]H(nil), pb.TxH...)}, Env: &eh, obs: obs}
	b.txs = append(append([]dbft.Transaction[H](nil), pb.txs...), env)
	return b
}

func (b *Block) HashData() []byte  { return b.Header.enc("blk", b.Env) }
func (b *Block) Hash() H           { return sha256.Sum256(b.HashData()) }
func (b *Block) PrevHash() H       { return b.Prev }
func (b *Block) Index() uint32     { return b.Idx }
func (b *Block) Signature() []byte { return b.sig }
func (b *Block) MerkleRoot() H {
	var buf bytes.Buffer
	for _, h := range b.TxH {
		buf.Write(h[:])
	}
	return sha256.Sum256(buf.Bytes())
}

func (b *Block) Transactions() []dbft.Transaction[H] { return b.txs }
func (b *Block) SetTransactions(t []dbft.Transaction[H]) {
	if b.Env != nil {
		return // final anti-MEV block keeps its own list (pre-block txs + envelope)
	}
	b.txs = t
}

// sigNonce makes signatures randomised like real ECDSA ones: signing the same block twice gives
// two different, equally valid signatures.
var sigNonce atomic.Uint64

// SignWith computes a signature of key over the block: nonce || MAC(secret, nonce || data).
func (b *Block) SignWith(k *Key) []byte {
	var nonce [8]byte
	binary.LittleEndian.PutUint64(nonce[:], sigNonce.Add(1))
	return append(nonce[:], mac(&k.secret, "blk", append(nonce[:], b.HashData()...))[:56]...)
}

func (b *Block) Sign(key dbft.PrivateKey) error {
	if b.obs != nil {
		if err := b.obs.OnSign("block", key, b.Hash()); err != nil {
			return err
		}
	}
	k, ok := key.(*Key)
	if !ok || k == nil {
		return errors.New("no private key")
	}
	b.sig = b.SignWith(k)
	return nil
}

func (b *Block) Verify(pub dbft.PublicKey, sig []byte) error {
	p, ok := pub.(*Pub)
	if !ok || p == nil {
		return errors.New("bad public key")
	}
	if len(sig) != 64 || !bytes.Equal(mac(p.secret, "blk", append(append([]byte(nil), sig[:8]...), b.HashData()...))[:56], sig[8:]) {
		return errors.New("bad signature")
	}
	return nil
}

// PreBlock implements dbft.PreBlock[H].
type PreBlock struct {
	Header
	txs  []dbft.Transaction[H]
	data []byte
	obs  SignObserver
}

var _ dbft.PreBlock[H] = (*PreBlock)(nil)

func NewPreBlock(idx uint32, prev H, ts, nonce uint64, txh []H, obs SignObserver) *PreBlock {
	return &PreBlock{Header: Header{idx, prev, ts, nonce, append([]H(nil), txh...)}, obs: obs}
}

func (pb *PreBlock) HashData() []byte { return pb.Header.enc("pre", nil) }
func (pb *PreBlock) Hash() H          { return sha256.Sum256(pb.HashData()) }
func (pb *PreBlock) Data() []byte     { return pb.data }

// DataWith computes the pre-commit data of key over the pre-block.
func (pb *PreBlock) DataWith(k *Key) []byte { return mac(&k.secret, "pre", pb.HashData())[:16] }

func (pb *PreBlock) SetData(key dbft.PrivateKey) error {
	if pb.obs != nil {
		if err := pb.obs.OnSign("preblock", key, pb.Hash()); err != nil {
			return err
		}
	}
	k, ok := key.(*Key)
	if !ok || k == nil {
		return errors.New("no private key")
	}
	pb.data = pb.DataWith(k)
	return nil
}

func (pb *PreBlock) Verify(pub dbft.PublicKey, data []byte) error {
	p, ok := pub.(*Pub)
	if !ok || p == nil {
		return errors.New("bad public key")
	}
	if !bytes.Equal(mac(p.secret, "pre", pb.HashData())[:16], data) {
		return errors.New("bad pre-commit data")
	}
	return nil
}

func (pb *PreBlock) Transactions() []dbft.Transaction[H]     { return pb.txs }
func (pb *PreBlock) SetTransactions(t []dbft.Transaction[H]) { pb.txs = t }
