package mon

import (
	"github.com/nspcc-dev/dbft"
	"github.com/nspcc-dev/dbft/verifh/vnet"
)

// Propose is the C15 monitor: every proposal of an honest primary is well formed.
type Propose struct {
	Base
	st map[int]*propState
}

type propState struct {
	prevTs   uint64 // timestamp handed to the latest Start/Reset
	havePrev bool
	verified []vnet.H // result of the latest GetVerified in this API call
	haveVer  bool
	// the proposal under construction / made in this (h,v)
	ts      uint64
	nonce   uint64
	hashes  []vnet.H
	h       uint32
	v       byte
	made    bool
	sent    bool
	checked bool
	// height at which the node accepted somebody else's proposal as a backup
	sawProposalAt uint32
}

func NewPropose() *Propose { return &Propose{st: map[int]*propState{}} }

func (m *Propose) Event(c *vnet.Cluster, e *vnet.Event) {
	if e.Node < 0 {
		return
	}
	n := c.Nodes[e.Node]
	if n.Role != vnet.Honest || n.D == nil {
		return
	}
	d := n.D
	s := m.st[n.ID]
	if s == nil {
		s = &propState{}
		m.st[n.ID] = s
	}
	inc := c.Cfg.TsInc
	switch e.Kind {
	case vnet.KAPICall:
		s.haveVer = false
		if e.API == "Start" || e.API == "Reset" {
			s.prevTs, s.havePrev = n.TipTs(), true
			s.made = false
		}
	case vnet.KEpoch:
		s.made = false
	case vnet.KVerifyBlock, vnet.KVerifyPreBlock:
		if !d.IsPrimary() {
			s.sawProposalAt = d.BlockIndex
		}
	case vnet.KGetVerified:
		s.verified, s.haveVer = e.Hs, true
	case vnet.KNewPrepReq:
		ts := uint64(e.Dur)
		m.inc("proposals-checked")
		if !s.havePrev {
			return
		}
		now := uint64(n.Timer.Now().UnixNano())
		tr := now - now%inc
		if s.prevTs >= 1<<63 {
			m.inc("proposals-after-huge-previous-timestamp")
		}
		switch {
		case ts <= s.prevTs:
			m.fail(c, "timestamp-not-increasing", "n%d proposal timestamp %d is not above the previous block's %d (clock %d, increment %d)", n.ID, ts, s.prevTs, now, inc)
		case s.prevTs+inc >= s.prevTs && tr >= s.prevTs+inc: // (no uint64 overflow of prev+inc)
			m.inc("proposals-clock-ahead")
			if ts != tr {
				m.fail(c, "timestamp-not-clock", "n%d proposal timestamp %d, expected truncated clock reading %d (previous %d, increment %d)", n.ID, ts, tr, s.prevTs, inc)
			}
		case tr > s.prevTs:
			m.inc("proposals-clock-in-gap") // prev < trunc(now) < prev+inc: only strict increase is enforced (DESIGN 4.15)
		default:
			m.inc("proposals-clock-behind")
		}
		if !s.haveVer {
			m.fail(c, "proposal-without-pool-read", "n%d built a proposal without reading the verified pool in this call", n.ID)
		} else if !eqHashes(s.verified, e.Hs) {
			m.fail(c, "proposal-not-pool", "n%d proposal lists %d transactions, the verified pool returned %d (or another order)", n.ID, len(e.Hs), len(s.verified))
		}
		if len(e.Hs) > 1 {
			m.inc("proposals-with-several-txs")
		}
		s.ts, s.hashes, s.h, s.v, s.made, s.sent, s.checked = ts, e.Hs, d.BlockIndex, d.ViewNumber, true, false, false
		if d.ViewNumber > 0 {
			m.inc("proposals-in-higher-view")
			if s.sawProposalAt == d.BlockIndex {
				m.inc("proposals-after-backup-role-in-same-height")
			}
		}
	case vnet.KSend:
		if e.P.T != dbft.PrepareRequestType {
			return
		}
		r := e.P.Body.(*vnet.PrepReq)
		if !s.made {
			m.fail(c, "proposal-sent-unbuilt", "n%d broadcast [%s] that it did not build in this view", n.ID, e.P.Short())
			return
		}
		s.nonce = r.Nc
		if e.P.Hgt != s.h || e.P.View != s.v || int(e.P.Idx) != d.MyIndex || r.Ts != s.ts || !eqHashes(r.Hashes, s.hashes) {
			m.fail(c, "proposal-payload-differs", "n%d broadcast [%s], built ts=%d tx=%d for (%d,%d)", n.ID, e.P.Short(), s.ts, len(s.hashes), s.h, s.v)
		}
		if int(e.P.Idx) != primaryOf(e.P.Hgt, e.P.View, len(d.Validators)) {
			m.fail(c, "proposal-by-non-primary", "n%d (index %d) proposed for (%d,%d)", n.ID, e.P.Idx, e.P.Hgt, e.P.View)
		}
		s.sent = true
	case vnet.KAPIRet:
		// whatever (pre)header the primary holds for the view it proposed in is built from the proposal
		if s.made && s.sent && d.BlockIndex == s.h && d.ViewNumber == s.v && d.IsPrimary() {
			if ph, ok := d.PreHeader().(*vnet.PreBlock); ok && ph != nil {
				if ph.Ts != s.ts || ph.Nonce != s.nonce || !eqHashes(ph.TxH, s.hashes) || ph.Idx != s.h {
					m.fail(c, "primary-preblock-differs-from-proposal", "n%d holds a pre-block header (ts=%d nonce=%d tx=%d) that differs from its proposal for (%d,%d) (ts=%d nonce=%d tx=%d)", n.ID, ph.Ts, ph.Nonce, len(ph.TxH), s.h, s.v, s.ts, s.nonce, len(s.hashes))
				}
				m.inc("primary-preheaders-checked")
			}
			if hd, ok := d.Header().(*vnet.Block); ok && hd != nil {
				if hd.Ts != s.ts || hd.Nonce != s.nonce || !eqHashes(hd.TxH, s.hashes) || hd.Idx != s.h {
					m.fail(c, "primary-block-differs-from-proposal", "n%d holds a block header (ts=%d nonce=%d tx=%d) that differs from its proposal for (%d,%d)", n.ID, hd.Ts, hd.Nonce, len(hd.TxH), s.h, s.v)
				}
				m.inc("primary-headers-checked")
			}
		}
		if s.made && s.sent && !s.checked && d.BlockIndex == s.h && d.ViewNumber == s.v {
			s.checked = true
			if d.Timestamp != s.ts || d.Nonce != s.nonce || !eqHashes(d.TransactionHashes, s.hashes) {
				m.fail(c, "context-differs-from-proposal", "n%d context (ts=%d nonce=%d tx=%d) differs from its proposal (ts=%d nonce=%d tx=%d)", n.ID, d.Timestamp, d.Nonce, len(d.TransactionHashes), s.ts, s.nonce, len(s.hashes))
			}
			for _, h := range s.hashes {
				if t, ok := d.Transactions[h]; !ok || t == nil || t.Hash() != h {
					m.fail(c, "proposal-tx-not-held", "n%d does not hold proposed transaction %s", n.ID, h)
					break
				}
			}
		}
	case vnet.KProcessBlock, vnet.KProcessPreBlock:
		// what the primary hands to the application for the view it proposed in is its proposal
		if !s.made || !s.sent || d.BlockIndex != s.h || d.ViewNumber != s.v || !d.IsPrimary() {
			return
		}
		var hd *vnet.Header
		if e.Blk != nil {
			hd = &e.Blk.Header
		} else if e.PB != nil {
			hd = &e.PB.Header
		}
		if hd == nil {
			return
		}
		m.inc("primary-handovers-checked")
		txs := hd.TxH
		if e.Blk != nil && len(txs) > len(s.hashes) && isAMEV(c, s.h) {
			txs = txs[:len(s.hashes)] // the final anti-MEV block appends the derived envelope transaction
		}
		if hd.Ts != s.ts || hd.Nonce != s.nonce || !eqHashes(txs, s.hashes) || hd.Idx != s.h {
			m.fail(c, "primary-handover-differs-from-proposal", "n%d handed over a (pre)block with ts=%d nonce=%d tx=%d for (%d,%d); its proposal had ts=%d nonce=%d tx=%d", n.ID, hd.Ts, hd.Nonce, len(hd.TxH), s.h, s.v, s.ts, s.nonce, len(s.hashes))
		}
	case vnet.KNewBlock, vnet.KNewPreBlock:
		if !s.made || !s.sent || d.BlockIndex != s.h || d.ViewNumber != s.v || !d.IsPrimary() {
			return
		}
		var hd *vnet.Header
		if e.Blk != nil {
			hd = &e.Blk.Header
		} else {
			hd = &e.PB.Header
		}
		m.inc("primary-blocks-checked")
		if hd.Ts != s.ts || hd.Nonce != s.nonce || !eqHashes(hd.TxH, s.hashes) || hd.Idx != s.h {
			m.fail(c, "primary-block-differs-from-proposal", "n%d built its own block with ts=%d nonce=%d tx=%d, proposal had ts=%d nonce=%d tx=%d", n.ID, hd.Ts, hd.Nonce, len(hd.TxH), s.ts, s.nonce, len(s.hashes))
		}
	}
}
