// Package mon holds the property monitors: oracles over the events and the
// live exported state of the real library instances of a vnet run.
package mon

import (
	"crypto/sha256"
	"encoding/hex"
	"fmt"

	"github.com/nspcc-dev/dbft"
	"github.com/nspcc-dev/dbft/verifh/vnet"
)

// V is one violation found by a monitor in one run.
type V struct {
	Sig   string
	What  string
	Seq   int
	Extra []string // events that explain the violation (offline monitors)
}

// Base carries what every monitor reports.
type Base struct {
	Viols []V
	Cnt   map[string]int64
}

func (b *Base) fail(c *vnet.Cluster, sig, format string, args ...any) {
	if len(b.Viols) < 8 {
		seq := 0
		if len(c.Trace) > 0 {
			seq = c.Trace[len(c.Trace)-1].Seq
		}
		b.Viols = append(b.Viols, V{Sig: sig, What: fmt.Sprintf(format, args...), Seq: seq})
	}
}

func (b *Base) inc(name string) { b.add(name, 1) }

func (b *Base) add(name string, n int64) {
	if b.Cnt == nil {
		b.Cnt = map[string]int64{}
	}
	b.Cnt[name] += n
}

// Event / End defaults.
func (b *Base) Event(*vnet.Cluster, *vnet.Event) {}
func (b *Base) End(*vnet.Cluster)                {}

// quorum arithmetic recomputed by the harness (never read from the library).
func fOf(n int) int { return (n - 1) / 3 }
func mOf(n int) int { return n - fOf(n) }

func primaryOf(h uint32, v byte, n int) int {
	return int(((int64(h)-int64(v))%int64(n) + int64(n)) % int64(n))
}

// AbstractTrace hashes the run's sequence of (node, kind, message type,
// view, api) with hashes, timestamps and signatures erased.
func AbstractTrace(c *vnet.Cluster) string {
	h := sha256.New()
	for _, e := range c.Trace {
		switch e.Kind {
		case vnet.KSend, vnet.KProcessBlock, vnet.KProcessPreBlock, vnet.KEpoch, vnet.KAPICall, vnet.KAdversary, vnet.KRestart, vnet.KNet:
			t := byte(0xff)
			if e.P != nil {
				t = byte(e.P.T)
			}
			h.Write([]byte{byte(e.Node), byte(e.Kind), t, e.V, byte(len(e.API))})
		}
	}
	return hex.EncodeToString(h.Sum(nil)[:12])
}

// Tail renders the last n events of the run.
func Tail(c *vnet.Cluster, n int) []string {
	tr := c.Trace
	if len(tr) > n {
		tr = tr[len(tr)-n:]
	}
	res := make([]string, len(tr))
	for i, e := range tr {
		res[i] = e.String()
	}
	return res
}

// Around renders the events with Seq in [seq-before, seq+after].
func Around(c *vnet.Cluster, seq, before, after int) []string {
	var res []string
	for _, e := range c.Trace {
		if e.Seq >= seq-before && e.Seq <= seq+after {
			res = append(res, e.String())
		}
	}
	return res
}

func isAMEV(c *vnet.Cluster, h uint32) bool {
	return c.Cfg.AMEV >= 0 && uint32(c.Cfg.AMEV) <= h
}

func payloadOf(p dbft.ConsensusPayload[vnet.H]) *vnet.Payload {
	if p == nil {
		return nil
	}
	q, _ := p.(*vnet.Payload)
	return q
}

// honestOracleNode tells whether per-node oracles apply to n: a real instance
// driven by the documented application loop that never lost its state.
func honestOracleNode(n *vnet.Node) bool {
	return n.Role == vnet.Honest && n.Restarts == 0
}
