package mon

import (
	"github.com/nspcc-dev/dbft"
	"github.com/nspcc-dev/dbft/verifh/vnet"
)

// ------------------------------------------------------------------ C12

// Oblig is the C12 monitor: a backup that is given every transaction it asked
// for answers the proposal no later than on the last supplied transaction.
type Oblig struct {
	Base
	st map[int]*obligState
}

type obligState struct {
	h        uint32
	v        byte
	inst     int
	asked    map[vnet.H]bool
	got      map[vnet.H]bool
	answered bool // PrepareResponse or ChangeView sent in this epoch
	// context of the OnTransaction call in progress
	inCall   bool
	callOK   bool
	callH    uint32
	callV    byte
	nested   bool
	reported bool
}

func NewOblig() *Oblig { return &Oblig{st: map[int]*obligState{}} }

func (m *Oblig) state(n *vnet.Node) *obligState {
	s := m.st[n.ID]
	if s == nil || s.h != n.D.BlockIndex || s.v != n.D.ViewNumber || s.inst != n.Restarts {
		old := s
		s = &obligState{h: n.D.BlockIndex, v: n.D.ViewNumber, inst: n.Restarts, asked: map[vnet.H]bool{}, got: map[vnet.H]bool{}}
		if old != nil && old.inCall {
			// the epoch changed inside an OnTransaction call: obligations for the new epoch start here
			s.inCall, s.nested = true, true
		}
		m.st[n.ID] = s
	}
	return s
}

func subset(a, b map[vnet.H]bool) bool {
	for h := range a {
		if !b[h] {
			return false
		}
	}
	return true
}

func (m *Oblig) Event(c *vnet.Cluster, e *vnet.Event) {
	if e.Node < 0 {
		return
	}
	n := c.Nodes[e.Node]
	if n.Role != vnet.Honest || n.D == nil || n.D.Validators == nil {
		return
	}
	d := n.D
	s := m.state(n)
	switch e.Kind {
	case vnet.KRequestTx:
		for _, h := range e.Hs {
			s.asked[h] = true
		}
		m.inc("request-tx-calls")
		if s.nested {
			m.inc("requests-issued-for-new-view-inside-OnTransaction")
		}
	case vnet.KSend:
		switch e.P.T {
		case dbft.PrepareResponseType, dbft.ChangeViewType:
			if e.P.Hgt == s.h && e.P.View == s.v {
				s.answered = true
			}
		}
	case vnet.KAPICall:
		if e.API != "OnTransaction" || e.Tx == nil {
			return
		}
		// the property's premise, evaluated when the call starts
		s.callOK = d.IsBackup() && !d.Context.WatchOnly() && d.RequestSentOrReceived() && !d.ViewChanging() && !d.ResponseSent() && !d.BlockSent() && !s.answered
		s.inCall, s.callH, s.callV = true, d.BlockIndex, d.ViewNumber
		if s.callOK && s.asked[e.Tx.Hash()] {
			s.got[e.Tx.Hash()] = true
			m.inc("requested-transactions-supplied")
		}
	case vnet.KAPIRet:
		if e.API != "OnTransaction" {
			return
		}
		// the state in which the call started (may differ from s if the epoch moved inside the call)
		if s.nested {
			m.inc("view-changes-inside-OnTransaction")
			s.inCall, s.nested = false, false
			return
		}
		if !s.inCall {
			return
		}
		s.inCall = false
		if s.callOK && len(s.asked) > 0 && subset(s.asked, s.got) {
			m.inc("obligations-completed")
			if !s.answered && !s.reported {
				s.reported = true
				m.fail(c, "no-answer-after-all-requested-txs", "n%d at (%d,%d) was given all %d transactions it asked for and neither responded to the proposal nor asked for a view change", n.ID, s.h, s.v, len(s.asked))
			}
		}
	}
}

// ------------------------------------------------------------------ C13

// Silence is the C13 monitor: watch-only nodes never broadcast, sign or
// generate pre-commit data.
type Silence struct{ Base }

func watchOnly(c *vnet.Cluster, n *vnet.Node) bool {
	if n.D == nil || n.D.Validators == nil {
		return false
	}
	return n.Watch || c.ValidatorIndex(n.D.BlockIndex, n.ID) < 0
}

func (m *Silence) Event(c *vnet.Cluster, e *vnet.Event) {
	if e.Node < 0 {
		return
	}
	n := c.Nodes[e.Node]
	if n.Role != vnet.Honest || !watchOnly(c, n) {
		return
	}
	switch e.Kind {
	case vnet.KSend:
		m.fail(c, "watch-only-broadcast", "watch-only n%d (flag=%v, index in list %d) broadcast [%s] during %s", n.ID, n.Watch, c.ValidatorIndex(n.D.BlockIndex, n.ID), e.P.Short(), apiOf(c, n))
	case vnet.KSign:
		m.fail(c, "watch-only-signature", "watch-only n%d produced %s signature/data at (%d,%d)", n.ID, e.Note, e.H, e.V)
	case vnet.KAPIRet:
		m.inc("watch-only-api-returns:" + e.API)
		if int(n.D.PrimaryIndex) == c.ValidatorIndex(n.D.BlockIndex, n.ID) {
			m.inc("watch-only-api-returns-while-primary")
		}
	case vnet.KProcessBlock:
		m.inc("watch-only-blocks-observed")
	}
}

func apiOf(c *vnet.Cluster, n *vnet.Node) string {
	for i := len(c.Trace) - 1; i >= 0; i-- {
		e := c.Trace[i]
		if e.Node == n.ID && e.Kind == vnet.KAPICall {
			return e.API
		}
	}
	return "?"
}
