package mon

import (
	"fmt"

	"github.com/nspcc-dev/dbft"
	"github.com/nspcc-dev/dbft/verifh/vnet"
)

// Cert is the C02 monitor (decision certificate), evaluated inside every
// ProcessBlock / ProcessPreBlock callback against the tables the library
// itself exposes at that instant. It also classifies how every stored
// (pre)commit entered the table (with or without a header to verify it
// against), which C01 uses to attribute forks.
type Cert struct {
	Base
	// first sight of every stored commit / pre-commit: key node|kind|uid
	seen  map[string]string // "verified" (header present), "early" (no header), "otherview"
	Infos []CertInfo
}

// CertInfo summarises one evaluated certificate.
type CertInfo struct {
	Node, N, M           int
	Height               uint32
	View                 byte
	Pre                  bool
	Valid                int
	InvalidEarly         int
	InvalidLate          int
	EarlyValid           int
	OtherView            int
	Hash                 vnet.H
	Seq                  int
	BadSigsOfferedBefore bool
}

func NewCert() *Cert { return &Cert{seen: map[string]string{}} }

func (m *Cert) key(n *vnet.Node, kind string, p *vnet.Payload) string {
	return fmt.Sprintf("%d.%d|%s|%d|%s", n.ID, n.Restarts, kind, p.Idx, p.Hash())
}

func (m *Cert) scan(c *vnet.Cluster, n *vnet.Node) {
	d := n.D
	if d == nil || d.Validators == nil {
		return
	}
	hasAll := len(d.TransactionHashes) == len(d.Transactions)
	for _, cp := range d.CommitPayloads {
		p := payloadOf(cp)
		if p == nil {
			continue
		}
		k := m.key(n, "c", p)
		if _, ok := m.seen[k]; ok {
			continue
		}
		switch {
		case p.View != d.ViewNumber:
			m.seen[k] = "otherview"
		case d.Header() == nil && !d.RequestSentOrReceived():
			m.seen[k] = "early"
			m.inc("commits-stored-without-header")
		case d.Header() == nil && isAMEV(c, d.BlockIndex):
			m.seen[k] = "early" // no final header before the pre-block is processed; judged by the anti-MEV branch
			m.inc("commits-stored-before-preblock")
		case d.Header() == nil:
			m.seen[k] = "after-proposal" // the proposal is known: the library could and must verify
			m.inc("commits-stored-after-proposal-without-header")
		default:
			m.seen[k] = "verified"
			m.inc("commits-stored-with-header")
		}
	}
	for _, cp := range d.PreCommitPayloads {
		p := payloadOf(cp)
		if p == nil {
			continue
		}
		k := m.key(n, "p", p)
		if _, ok := m.seen[k]; ok {
			continue
		}
		switch {
		case p.View != d.ViewNumber:
			m.seen[k] = "otherview"
		case !d.RequestSentOrReceived():
			m.seen[k] = "early"
			m.inc("precommits-stored-without-preblock")
		case d.PreHeader() == nil || !hasAll:
			m.seen[k] = "after-proposal" // parked while transactions are missing: verified once the block is complete
			m.inc("precommits-stored-while-transactions-missing")
		default:
			m.seen[k] = "verified"
			m.inc("precommits-stored-with-preblock")
		}
	}
}

func (m *Cert) Event(c *vnet.Cluster, e *vnet.Event) {
	if e.Node < 0 {
		return
	}
	n := c.Nodes[e.Node]
	if n.Role != vnet.Honest {
		return
	}
	// classify newly stored (pre)commits at every observation point of the node: the
	// payload-verification callback runs right after a (pre)commit is stored, so the
	// state of the (pre)header at storing time is seen exactly
	m.scan(c, n)
	switch e.Kind {
	case vnet.KProcessBlock:
		m.checkBlock(c, n, e)
	case vnet.KProcessPreBlock:
		m.checkPreBlock(c, n, e)
	}
}

func (m *Cert) proposal(c *vnet.Cluster, n *vnet.Node, what string) *vnet.Payload {
	d := n.D
	nv := len(d.Validators)
	pi := primaryOf(d.BlockIndex, d.ViewNumber, nv)
	if int(d.PrimaryIndex) != pi {
		m.fail(c, "wrong-primary-index", "n%d %s at (%d,%d): PrimaryIndex=%d, expected %d", n.ID, what, d.BlockIndex, d.ViewNumber, d.PrimaryIndex, pi)
	}
	p := payloadOf(d.PreparationPayloads[pi])
	if p == nil || p.T != dbft.PrepareRequestType {
		m.fail(c, "no-proposal", "n%d %s at (%d,%d) without the primary's proposal in the table", n.ID, what, d.BlockIndex, d.ViewNumber)
		return nil
	}
	if p.View != d.ViewNumber || p.Hgt != d.BlockIndex || int(p.Idx) != pi {
		m.fail(c, "foreign-proposal", "n%d %s at (%d,%d) with proposal [%s]", n.ID, what, d.BlockIndex, d.ViewNumber, p.Short())
		return nil
	}
	return p
}

func sameHashes(a []vnet.H, b []dbft.Transaction[vnet.H]) bool {
	if len(a) != len(b) {
		return false
	}
	for i := range a {
		if b[i] == nil || b[i].Hash() != a[i] {
			return false
		}
	}
	return true
}

func (m *Cert) checkBlock(c *vnet.Cluster, n *vnet.Node, e *vnet.Event) {
	d := n.D
	b := e.Blk
	nv := len(d.Validators)
	M := mOf(nv)
	m.inc("block-certificates")
	info := CertInfo{Node: n.ID, N: nv, M: M, Height: d.BlockIndex, View: d.ViewNumber, Hash: b.Hash(), Seq: e.Seq}
	for i, cp := range d.CommitPayloads {
		p := payloadOf(cp)
		if p == nil {
			continue
		}
		if p.View != d.ViewNumber {
			info.OtherView++
			continue
		}
		if int(p.Idx) != i || p.T != dbft.CommitType || p.Hgt != d.BlockIndex {
			m.fail(c, "misplaced-commit", "n%d slot %d holds [%s] at acceptance of height %d", n.ID, i, p.Short(), d.BlockIndex)
			continue
		}
		first := m.seen[m.key(n, "c", p)]
		if err := b.Verify(d.Validators[i], p.Body.(*vnet.CommitB).Sig); err == nil {
			info.Valid++
			if first == "early" {
				info.EarlyValid++
			}
		} else if first == "early" {
			info.InvalidEarly++
		} else {
			info.InvalidLate++
		}
	}
	switch {
	case info.Valid >= M:
	case info.InvalidLate == 0 && info.Valid+info.InvalidEarly >= M && isAMEV(c, b.Idx):
		// under anti-MEV every commit that arrived before the pre-block was processed is verified when it is processed
		m.fail(c, "amev-early-unverified-commit", "n%d accepted block %s at (%d,%d) with only %d/%d verifying current-view commits; %d commit(s) stored before the pre-block was processed never verified", n.ID, b.Hash(), d.BlockIndex, d.ViewNumber, info.Valid, M, info.InvalidEarly)
	case info.InvalidLate == 0 && info.Valid+info.InvalidEarly >= M && d.IsPrimary() && !d.Context.WatchOnly():
		// the recorded finding concerns nodes that *receive* the proposal; a primary validates early payloads when it proposes
		m.fail(c, "early-unverified-commit-at-primary", "primary n%d accepted block %s at (%d,%d) with only %d/%d verifying current-view commits; %d commit(s) stored before its own proposal never verified", n.ID, b.Hash(), d.BlockIndex, d.ViewNumber, info.Valid, M, info.InvalidEarly)
	case info.InvalidLate == 0 && info.Valid+info.InvalidEarly >= M:
		m.fail(c, "early-unverified-commit", "n%d accepted block %s at (%d,%d) with only %d/%d verifying current-view commits; %d commit(s) stored before the proposal never verified", n.ID, b.Hash(), d.BlockIndex, d.ViewNumber, info.Valid, M, info.InvalidEarly)
	default:
		m.fail(c, "short-certificate", "n%d accepted block %s at (%d,%d) with %d verifying current-view commits (M=%d, invalid counted: %d early, %d late, other-view present: %d)", n.ID, b.Hash(), d.BlockIndex, d.ViewNumber, info.Valid, M, info.InvalidEarly, info.InvalidLate, info.OtherView)
	}
	if info.OtherView > 0 {
		m.inc("certs-with-other-view-commits-present")
	}
	if info.EarlyValid > 0 {
		m.inc("certs-with-early-valid-commits")
	}
	if info.InvalidEarly > 0 {
		m.inc("certs-with-early-invalid-commits")
	}
	// extends the application's tip
	// (the tip the application reported at the latest Start/Reset: the ledger may have moved on since)
	if b.Idx != n.InitHeight+1 || b.Prev != n.InitTip {
		m.fail(c, "not-extending-tip", "n%d handed block index=%d prev=%s while the ledger tip reported at its latest (re)initialisation was height=%d tip=%s", n.ID, b.Idx, b.Prev, n.InitHeight, n.InitTip)
	}
	// is exactly the view's proposal
	if p := m.proposal(c, n, "block acceptance"); p != nil {
		exp := c.BlockFor(p, n.InitTip)
		req := p.Body.(*vnet.PrepReq)
		if exp.Hash() != b.Hash() || b.Ts != req.Ts || b.Nonce != req.Nc {
			m.fail(c, "block-differs-from-proposal", "n%d accepted block %s (ts=%d nonce=%d tx=%d) but proposal [%s] yields %s", n.ID, b.Hash(), b.Ts, b.Nonce, len(b.TxH), p.Short(), exp.Hash())
		}
		want := req.Hashes
		if isAMEV(c, b.Idx) {
			hd := vnet.HeaderFor(p, n.InitTip)
			want = append(append([]vnet.H(nil), req.Hashes...), vnet.EnvelopeOf(&hd).Hash())
		}
		if !sameHashes(want, b.Transactions()) {
			m.fail(c, "block-tx-order", "n%d accepted block %s whose transaction list (%d) is not the proposal's list in order (%d)", n.ID, b.Hash(), len(b.Transactions()), len(want))
		}
	}
	if isAMEV(c, b.Idx) {
		m.inc("block-certificates-amev")
	}
	m.Infos = append(m.Infos, info)
}

func (m *Cert) checkPreBlock(c *vnet.Cluster, n *vnet.Node, e *vnet.Event) {
	d := n.D
	pb := e.PB
	nv := len(d.Validators)
	M := mOf(nv)
	m.inc("preblock-certificates")
	info := CertInfo{Node: n.ID, N: nv, M: M, Height: d.BlockIndex, View: d.ViewNumber, Pre: true, Hash: pb.Hash(), Seq: e.Seq}
	for i, cp := range d.PreCommitPayloads {
		p := payloadOf(cp)
		if p == nil {
			continue
		}
		if p.View != d.ViewNumber {
			info.OtherView++
			continue
		}
		if int(p.Idx) != i || p.T != dbft.PreCommitType || p.Hgt != d.BlockIndex {
			m.fail(c, "misplaced-precommit", "n%d slot %d holds [%s]", n.ID, i, p.Short())
			continue
		}
		first := m.seen[m.key(n, "p", p)]
		if err := pb.Verify(d.Validators[i], p.Body.(*vnet.PreCommitB).D); err == nil {
			info.Valid++
			if first == "early" {
				info.EarlyValid++
			}
		} else if first == "early" {
			info.InvalidEarly++
		} else {
			info.InvalidLate++
		}
	}
	switch {
	case info.Valid >= M:
	case info.InvalidLate == 0 && info.Valid+info.InvalidEarly >= M && d.IsPrimary() && !d.Context.WatchOnly():
		m.fail(c, "early-unverified-precommit-at-primary", "primary n%d handed over pre-block %s at (%d,%d) with only %d/%d verifying current-view pre-commits; %d stored before its own proposal never verified", n.ID, pb.Hash(), d.BlockIndex, d.ViewNumber, info.Valid, M, info.InvalidEarly)
	case info.InvalidLate == 0 && info.Valid+info.InvalidEarly >= M:
		m.fail(c, "early-unverified-precommit", "n%d handed over pre-block %s at (%d,%d) with only %d/%d verifying current-view pre-commits; %d stored before the proposal never verified", n.ID, pb.Hash(), d.BlockIndex, d.ViewNumber, info.Valid, M, info.InvalidEarly)
	default:
		m.fail(c, "short-precommit-certificate", "n%d handed over pre-block %s at (%d,%d) with %d verifying current-view pre-commits (M=%d, invalid: %d early, %d late)", n.ID, pb.Hash(), d.BlockIndex, d.ViewNumber, info.Valid, M, info.InvalidEarly, info.InvalidLate)
	}
	if info.EarlyValid > 0 {
		m.inc("precerts-with-early-valid-precommits")
	}
	if !isAMEV(c, d.BlockIndex) {
		m.fail(c, "preblock-below-enabling-height", "n%d ProcessPreBlock at height %d, enabling height %d", n.ID, d.BlockIndex, c.Cfg.AMEV)
	}
	if p := m.proposal(c, n, "pre-block hand-over"); p != nil {
		exp := c.PreBlockFor(p, n.InitTip)
		if exp.Hash() != pb.Hash() {
			m.fail(c, "preblock-differs-from-proposal", "n%d pre-block %s but proposal [%s] yields %s", n.ID, pb.Hash(), p.Short(), exp.Hash())
		}
		if !sameHashes(p.Body.(*vnet.PrepReq).Hashes, pb.Transactions()) {
			m.fail(c, "preblock-tx-order", "n%d pre-block transaction list differs from the proposal's", n.ID)
		}
	}
	m.Infos = append(m.Infos, info)
}

// Agree is the C01 monitor: offline agreement over the acceptances of honest,
// never-restarted nodes, with attribution through Cert.
type Agree struct {
	Base
	Cert *Cert
}

func (m *Agree) End(c *vnet.Cluster) {
	type acc struct {
		node int
		hash vnet.H
	}
	byH := map[uint32][]acc{}
	for _, n := range c.Nodes {
		if !honestOracleNode(n) {
			continue
		}
		for i, b := range n.Chain {
			byH[c.Cfg.BaseHeight+uint32(i)+1] = append(byH[c.Cfg.BaseHeight+uint32(i)+1], acc{n.ID, b.Hash()})
		}
		m.add("honest-decisions", int64(len(n.Accepted)))
	}
	for _, n := range c.Nodes {
		if honestOracleNode(n) {
			for _, lf := range n.LateForks {
				m.fail(c, "fork", "n%d decided block %s for height %d after its ledger had got %s for that height from its peers", n.ID, lf[1].Hash(), lf[1].Idx, lf[0].Hash())
			}
		}
	}
	for h, l := range byH {
		m.inc("heights-compared")
		for _, a := range l[1:] {
			if a.hash != l[0].hash {
				sig := "fork"
				// attribution: a fork is the known finding only if one of the two
				// acceptances rests on early commits that were never verified and
				// every other certificate of the two nodes at this height is sound.
				if m.Cert != nil {
					early, other := false, false
					for _, ci := range m.Cert.Infos {
						if ci.Height != h || ci.Pre || (ci.Node != a.node && ci.Node != l[0].node) {
							continue
						}
						switch {
						case ci.Valid >= ci.M:
						case ci.InvalidLate == 0 && ci.Valid+ci.InvalidEarly >= ci.M:
							early = true
						default:
							other = true
						}
					}
					if early && !other {
						sig = "early-unverified-commit"
					}
				}
				certs := ""
				if m.Cert != nil {
					for _, ci := range m.Cert.Infos {
						if ci.Height == h && !ci.Pre && (ci.Node == a.node || ci.Node == l[0].node) {
							certs += fmt.Sprintf(" [n%d view %d block %s: %d valid, %d invalid stored before the proposal, %d other invalid, %d other-view; M=%d]", ci.Node, ci.View, ci.Hash, ci.Valid, ci.InvalidEarly, ci.InvalidLate, ci.OtherView, ci.M)
						}
					}
				}
				m.fail(c, sig, "fork at height %d: n%d has %s, n%d has %s; certificates:%s", h, l[0].node, l[0].hash, a.node, a.hash, certs)
				if k := len(m.Viols); k > 0 {
					var ex []string
					for _, e := range c.Trace {
						rel := e.P != nil && e.P.Hgt == h && (e.P.T == dbft.CommitType || e.P.T == dbft.PrepareRequestType || e.P.T == dbft.PreCommitType)
						if (e.Node == a.node || e.Node == l[0].node) && (e.Kind == vnet.KProcessBlock || rel && (e.Kind == vnet.KAPICall || e.Kind == vnet.KSend)) || e.Kind == vnet.KAdversary && rel {
							ex = append(ex, e.String())
						}
						if len(ex) >= 300 {
							break
						}
					}
					m.Viols[k-1].Extra = ex
				}
				break
			}
		}
	}
}
