package mon

import (
	"time"

	"github.com/nspcc-dev/dbft"
	"github.com/nspcc-dev/dbft/verifh/vnet"
)

// SyncRun is the C08 monitor: in a fault-free synchronous run every validator
// decides every height in view 0 on one block and nobody asks for a view
// change or for recovery state.
type SyncRun struct {
	Base
	premiseBroken bool
}

// proposalInFlight tells whether the proposal of the node's current epoch is
// on its way to the node. With dynamic block time a proposal can be made at
// any instant (when a transaction appears), so it may legitimately be in
// flight when a backup's timer expires: the premise "every message is
// delivered before the next timer expires" does not hold for that expiry.
func proposalInFlight(c *vnet.Cluster, e *vnet.Event) bool {
	if c.Cfg.MaxTPB == 0 {
		return false
	}
	for _, env := range c.Inflight {
		if env.To == e.Node && env.P.T == dbft.PrepareRequestType && env.P.Hgt == e.H && env.P.View == e.V {
			return true
		}
	}
	return false
}

func (m *SyncRun) Event(c *vnet.Cluster, e *vnet.Event) {
	if e.Node < 0 {
		return
	}
	switch e.Kind {
	case vnet.KSend:
		if (e.P.T == dbft.ChangeViewType || e.P.T == dbft.RecoveryRequestType) && proposalInFlight(c, e) {
			m.inc("timeouts-excused-proposal-in-flight")
			m.premiseBroken = true
			return
		}
		if m.premiseBroken {
			return
		}
		switch e.P.T {
		case dbft.ChangeViewType:
			m.fail(c, "change-view-in-fault-free-run", "n%d asked for a view change [%s] in a fault-free synchronous run", e.Node, e.P.Short())
		case dbft.RecoveryRequestType:
			m.fail(c, "recovery-request-in-fault-free-run", "n%d asked for recovery state [%s] in a fault-free synchronous run", e.Node, e.P.Short())
		}
	case vnet.KAPICall:
		if e.API != "OnReceive" || e.P == nil {
			return
		}
		n := c.Nodes[e.Node]
		if n.D == nil || n.D.Validators == nil {
			return
		}
		m.inc("deliveries")
		switch {
		case e.P.Hgt > e.H:
			m.inc("deliveries-before-height-entered")
		case e.P.Hgt == e.H && e.P.View > e.V:
			m.inc("deliveries-before-view-entered")
		case e.P.Hgt == e.H && !n.D.BlockSent() && !n.D.RequestSentOrReceived():
			switch e.P.T {
			case dbft.CommitType, dbft.PreCommitType:
				m.inc("commits-before-proposal")
			case dbft.PrepareResponseType:
				m.inc("responses-before-proposal")
			}
		case e.P.Hgt < e.H || n.D.BlockSent():
			m.inc("deliveries-after-decision")
		}
	}
}

func (m *SyncRun) End(c *vnet.Cluster) {
	if c.Aborted {
		return
	}
	if m.premiseBroken {
		m.inc("runs-outside-premise")
		return
	}
	if c.Steps >= c.Cfg.MaxSteps {
		m.inc("runs-cut-by-the-step-cap") // the harness stopped the run: says nothing about the library
		return
	}
	base := c.Cfg.BaseHeight
	for h := base + 1; h <= c.TargetHeight(); h++ {
		var ref *vnet.AcceptRec
		for _, n := range c.Nodes {
			if n.Role != vnet.Honest {
				continue
			}
			var mine []vnet.AcceptRec
			for _, a := range n.Accepted {
				if a.Height == h {
					mine = append(mine, a)
				}
			}
			validator := c.ValidatorIndex(h, n.ID) >= 0 && !n.Watch
			switch {
			case len(mine) == 0:
				m.fail(c, "height-not-decided", "n%d did not decide height %d in a fault-free synchronous run (steps=%d, clock=%s)", n.ID, h, c.Steps, time.Duration(c.Clock))
				continue
			case len(mine) > 1:
				m.fail(c, "decided-twice", "n%d decided height %d %d times", n.ID, h, len(mine))
			}
			a := mine[0]
			m.inc("decisions-checked")
			if a.Synced && !validator {
				m.inc("observer-blocks-from-relay")
			} else if a.Synced {
				m.fail(c, "decided-by-ledger-sync", "n%d got height %d from the ledger, not from consensus", n.ID, h)
			}
			if a.View != 0 && validator {
				m.fail(c, "decided-in-higher-view", "n%d decided height %d in view %d", n.ID, h, a.View)
			}
			if ref == nil {
				ref = &a
			} else if ref.Hash != a.Hash {
				m.fail(c, "fork", "height %d: %s vs %s", h, ref.Hash, a.Hash)
			}
		}
	}
	// nothing of the finished heights is retained in the future-message cache
	for _, n := range c.Nodes {
		if n.Role != vnet.Honest || n.D == nil || n.PendingReset {
			continue
		}
		for h := range n.D.VerifCache() {
			if h <= n.Height() {
				m.fail(c, "stale-cache-after-run", "n%d still caches payloads of height %d while its ledger is at %d", n.ID, h, n.Height())
			}
		}
	}
}

// DynTime is the C16 monitor: dynamic block time on a fault-free synchronous network.
type DynTime struct {
	Base
	lastProposal int64
	lastHeight   uint32
	haveLast     bool
	notifyDepth  map[int]*notifyCtx
	wait         map[int]*waitState
}

type waitState struct {
	h       uint32
	fired   bool
	firedAt int64
	ta      int64
	haveTa  bool
}

type notifyCtx struct {
	subscribed bool
	primary    bool
	proposed   bool
	hadReq     bool
}

func NewDynTime() *DynTime {
	return &DynTime{notifyDepth: map[int]*notifyCtx{}, wait: map[int]*waitState{}}
}

func (m *DynTime) Event(c *vnet.Cluster, e *vnet.Event) {
	if e.Node < 0 {
		if e.Kind == vnet.KNet && e.Tx != nil && c.Cfg.MaxTPB > 0 {
			// a transaction became available: note it for every primary that is waiting for one
			for _, n := range c.Nodes {
				if n.Role != vnet.Honest || !n.Live() || n.D.Validators == nil {
					continue
				}
				d := n.D
				if _, has := n.Pool[e.Tx.Hash()]; !has || !d.IsPrimary() || d.Context.WatchOnly() || d.ViewNumber != 0 || d.RequestSentOrReceived() || d.BlockSent() {
					continue
				}
				w := m.wait[n.ID]
				if w == nil || w.h != d.BlockIndex {
					w = &waitState{h: d.BlockIndex}
					m.wait[n.ID] = w
				}
				if !w.haveTa {
					w.ta, w.haveTa = e.Clock, true
				}
			}
		}
		return
	}
	n := c.Nodes[e.Node]
	cfg := &c.Cfg
	tol := 2*int64(cfg.LatMax) + int64(cfg.K.SlowExtra)
	if e.Kind == vnet.KAPICall && e.API == "OnTimeout" && n.D != nil && n.D.Validators != nil && e.TH == n.D.BlockIndex && e.TV == 0 && n.D.ViewNumber == 0 && n.D.IsPrimary() {
		w := m.wait[n.ID]
		if w == nil || w.h != n.D.BlockIndex {
			w = &waitState{h: n.D.BlockIndex}
			m.wait[n.ID] = w
		}
		if !w.fired {
			w.fired, w.firedAt = true, e.Clock
		}
	}
	if e.Kind == vnet.KSend && e.P.T == dbft.PrepareRequestType && e.P.View == 0 && cfg.MaxTPB > 0 {
		if w := m.wait[n.ID]; w != nil && w.h == e.P.Hgt && w.haveTa && w.fired && w.firedAt <= w.ta {
			m.inc("waiting-primaries-with-transaction-checked")
			if gap := e.Clock - w.ta; gap > tol {
				m.fail(c, "proposal-not-prompt", "primary n%d of height %d was waiting (its block-time timer had fired) when a transaction became available, but proposed only %s later (tolerance %s)", n.ID, e.P.Hgt, time.Duration(gap), time.Duration(tol))
			}
		}
	}
	switch e.Kind {
	case vnet.KSubscribe:
		if cfg.MaxTPB == 0 {
			m.fail(c, "subscription-without-extension", "n%d subscription callback used although the maximum block time is not configured", n.ID)
		}
		m.inc("subscriptions")
	case vnet.KSend:
		if (e.P.T == dbft.ChangeViewType || e.P.T == dbft.RecoveryRequestType) && proposalInFlight(c, e) {
			m.inc("timeouts-excused-proposal-in-flight")
			return
		}
		switch e.P.T {
		case dbft.ChangeViewType:
			m.fail(c, "idle-view-change", "n%d asked for a view change [%s] on a fault-free synchronous network", n.ID, e.P.Short())
		case dbft.RecoveryRequestType:
			m.fail(c, "idle-recovery-request", "n%d asked for recovery [%s] on a fault-free synchronous network", n.ID, e.P.Short())
		case dbft.PrepareRequestType:
			if ctx := m.notifyDepth[n.ID]; ctx != nil {
				ctx.proposed = true
			}
			ntx := len(e.P.Body.(*vnet.PrepReq).Hashes)
			if m.haveLast && e.P.Hgt == m.lastHeight+1 {
				gap := e.Clock - m.lastProposal
				m.inc("proposal-gaps-checked")
				if gap < int64(cfg.TPB)-tol {
					m.fail(c, "proposal-too-early", "proposal of height %d sent %s after the previous one (minimum block time %s, tolerance %s)", e.P.Hgt, time.Duration(gap), cfg.TPB, time.Duration(tol))
				}
				if ntx == 0 && cfg.MaxTPB > 0 {
					m.inc("empty-proposals-checked")
					if gap < int64(cfg.MaxTPB)-tol {
						m.fail(c, "empty-proposal-too-early", "empty proposal of height %d sent %s after the previous one (maximum block time %s, tolerance %s)", e.P.Hgt, time.Duration(gap), cfg.MaxTPB, time.Duration(tol))
					}
				}
				if ntx > 0 {
					m.inc("non-empty-proposals-checked")
				}
			}
			m.lastProposal, m.lastHeight, m.haveLast = e.Clock, e.P.Hgt, true
		}
	case vnet.KAPICall:
		if e.API == "OnNewTransaction" && n.D != nil {
			m.notifyDepth[n.ID] = &notifyCtx{subscribed: n.D.VerifFlags().TxSubscriptionOn, primary: n.D.IsPrimary() && !n.D.Context.WatchOnly(), hadReq: n.D.RequestSentOrReceived()}
		}
	case vnet.KAPIRet:
		if n.D != nil && cfg.MaxTPB == 0 && n.D.VerifFlags().TxSubscriptionOn {
			m.fail(c, "subscription-flag-without-extension", "n%d has its transaction subscription on although the extension is not configured", n.ID)
		}
		if e.API == "OnNewTransaction" {
			ctx := m.notifyDepth[n.ID]
			delete(m.notifyDepth, n.ID)
			if ctx != nil && ctx.subscribed && ctx.primary && !ctx.hadReq && !n.D.BlockSent() {
				m.inc("notifications-to-waiting-primary")
				if !ctx.proposed {
					m.fail(c, "notification-ignored", "n%d (primary, subscribed, waiting) made no proposal on a new-transaction notification at (%d,%d)", n.ID, e.H, e.V)
				}
			}
		}
	}
}

func (m *DynTime) End(c *vnet.Cluster) {
	if c.Aborted {
		return
	}
	if c.Steps >= c.Cfg.MaxSteps {
		m.inc("runs-cut-by-the-step-cap") // the harness stopped the run: says nothing about the library
		return
	}
	for _, n := range c.Nodes {
		if n.Role == vnet.Honest && n.Height() < c.TargetHeight() {
			m.fail(c, "height-not-decided", "n%d stopped at height %d of %d in a fault-free synchronous run with dynamic block time (clock=%s)", n.ID, n.Height(), c.TargetHeight(), time.Duration(c.Clock))
		}
	}
}
