package mon

import (
	"fmt"

	"github.com/nspcc-dev/dbft"
	"github.com/nspcc-dev/dbft/verifh/vnet"
)

// ------------------------------------------------------------------ C03

// Lock is the C03 monitor: non-equivocation and commit lock, decided offline
// over every honest node's outgoing message history.
type Lock struct {
	Base
	cu catchUp
	// watchSeen: per node, the sequence numbers of the events at which its watch-only flag was set
	watchSeen map[int][]int
}

// Event applies the online part: the catch-up rule for restarted nodes, and notes when the
// application had a node's watch-only flag set.
func (m *Lock) Event(c *vnet.Cluster, e *vnet.Event) {
	m.cu.rule(&m.Base, c, e)
	if e.Node >= 0 && c.Nodes[e.Node].Watch {
		if m.watchSeen == nil {
			m.watchSeen = map[int][]int{}
		}
		m.watchSeen[e.Node] = append(m.watchSeen[e.Node], e.Seq)
	}
}

// watchBetween tells whether node id was seen with its watch-only flag set at an event in (from, to].
func (m *Lock) watchBetween(id, from, to int) bool {
	for _, q := range m.watchSeen[id] {
		if q > from && q <= to {
			return true
		}
	}
	return false
}

type lockState struct {
	height     uint32
	byTypeView map[[2]int]vnet.H // (type, view) -> hash for PrepareRequest / PrepareResponse
	commit     *vnet.Payload
	preCommit  *vnet.Payload
	tainted    bool // the node followed a view change while flagged watch-only after its (pre)commit (DESIGN 5.19): from then on only a second signature is judged at this height
	lockView   int  // view at the first commit / pre-commit, -1 before
	lockSeq    int
	maxView    int
}

func (m *Lock) End(c *vnet.Cluster) {
	// The oracle applies to every incarnation of an honest node separately: a node that restarted
	// with empty consensus state is a faulty node as far as its earlier statements are concerned,
	// but from the restart on it has to keep the discipline again.
	st := map[int]*lockState{}
	restarted := map[int]bool{}
	for _, e := range c.Trace {
		if e.Node < 0 {
			continue
		}
		n := c.Nodes[e.Node]
		if n.Role != vnet.Honest {
			continue
		}
		if e.Kind == vnet.KRestart {
			delete(st, n.ID)
			restarted[n.ID] = true
			m.inc("incarnations-after-restart")
			continue
		}
		s := st[n.ID]
		if s == nil {
			s = &lockState{height: e.H, byTypeView: map[[2]int]vnet.H{}, lockView: -1, maxView: -1}
			st[n.ID] = s
		}
		switch e.Kind {
		case vnet.KSend:
			p := e.P
			if p.Hgt != s.height {
				s = &lockState{height: p.Hgt, byTypeView: map[[2]int]vnet.H{}, lockView: -1, maxView: -1}
				st[n.ID] = s
			}
			m.inc("sends-checked")
			h := p.Hash()
			// a retransmission of the node's original (pre)commit carries the original's view by definition
			retrans := (p.T == dbft.CommitType && s.commit != nil && s.commit.Hash() == h) || (p.T == dbft.PreCommitType && s.preCommit != nil && s.preCommit.Hash() == h)
			if int(p.View) < s.maxView && !retrans {
				m.fail(c, "view-decreased", "n%d sent [%s] after a message of view %d at the same height", n.ID, p.Short(), s.maxView)
			}
			if int(p.View) > s.maxView {
				s.maxView = int(p.View)
			}
			switch p.T {
			case dbft.PrepareRequestType, dbft.PrepareResponseType:
				k := [2]int{int(p.T), int(p.View)}
				if old, ok := s.byTypeView[k]; ok && old != h {
					m.fail(c, "equivocation", "n%d sent two different %s payloads for (%d,%d): %s and %s", n.ID, p.T, p.Hgt, p.View, old, h)
				}
				s.byTypeView[k] = h
				if p.T == dbft.PrepareRequestType {
					m.inc("proposals-seen")
					// a primary also never answers itself with a response in the same view
					if _, ok := s.byTypeView[[2]int{int(dbft.PrepareResponseType), int(p.View)}]; ok {
						m.fail(c, "request-and-response", "n%d sent both a PrepareRequest and a PrepareResponse for (%d,%d)", n.ID, p.Hgt, p.View)
					}
				} else if _, ok := s.byTypeView[[2]int{int(dbft.PrepareRequestType), int(p.View)}]; ok {
					m.fail(c, "request-and-response", "n%d sent both a PrepareRequest and a PrepareResponse for (%d,%d)", n.ID, p.Hgt, p.View)
				}
			case dbft.CommitType:
				if s.commit != nil && s.commit.Hash() != h {
					m.fail(c, "two-commits", "n%d sent two different commits at height %d: [%s] and [%s]", n.ID, p.Hgt, s.commit.Short(), p.Short())
				}
				if s.commit == nil {
					s.commit = p.Clone()
					m.inc("commits-seen")
				} else {
					m.inc("commit-retransmissions")
				}
				if s.lockView < 0 {
					s.lockView, s.lockSeq = int(p.View), e.Seq
				}
			case dbft.PreCommitType:
				if s.preCommit != nil && s.preCommit.Hash() != h {
					m.fail(c, "two-precommits", "n%d sent two different pre-commits at height %d: [%s] and [%s]", n.ID, p.Hgt, s.preCommit.Short(), p.Short())
				}
				if s.preCommit == nil {
					s.preCommit = p.Clone()
					m.inc("precommits-seen")
				}
				if s.lockView < 0 {
					s.lockView, s.lockSeq = int(p.View), e.Seq
				}
			case dbft.ChangeViewType:
				if s.lockView >= 0 && s.tainted {
					m.inc("consequences-of-the-watch-only-finding-not-judged")
				} else if s.lockView >= 0 {
					m.fail(c, "changeview-after-commit", "n%d asked for a view change [%s] after its (pre)commit of view %d", n.ID, p.Short(), s.lockView)
				}
			case dbft.RecoveryMessageType:
				rm := p.Body.(*vnet.RecMsg)
				for _, q := range rm.Commits {
					if q.Idx == p.Idx {
						m.inc("own-commits-in-recovery")
						if s.commit == nil && restarted[n.ID] {
							// a (pre)commit of an earlier incarnation that came back from the peers: from now on it is what this incarnation has said
							s.commit = q.Clone()
							m.inc("own-commits-readopted-after-restart")
						}
						if s.commit == nil || s.commit.Hash() != q.Hash() {
							m.fail(c, "recovery-commit-differs", "n%d recovery message embeds own commit [%s] that differs from the original", n.ID, q.Short())
						}
					}
				}
				for _, q := range rm.PreCommits {
					if q.Idx == p.Idx {
						m.inc("own-precommits-in-recovery")
						if s.preCommit == nil && restarted[n.ID] {
							s.preCommit = q.Clone()
							m.inc("own-precommits-readopted-after-restart")
						}
						if s.preCommit == nil || s.preCommit.Hash() != q.Hash() {
							m.fail(c, "recovery-precommit-differs", "n%d recovery message embeds own pre-commit [%s] that differs from the original", n.ID, q.Short())
						}
					}
				}
			}
			if s.lockView >= 0 && int(p.View) != s.lockView && !retrans && !s.tainted {
				m.fail(c, "view-moved-after-commit", "n%d sent [%s] in view %d after its (pre)commit of view %d", n.ID, p.Short(), p.View, s.lockView)
			}
		case vnet.KEpoch:
			if e.H == e.TH && e.Note != "first" {
				if s.lockView >= 0 && s.height == e.H && m.watchBetween(n.ID, s.lockSeq, e.Seq) {
					// DESIGN 5.19: the commit lock is conditioned on !WatchOnly(); a committed node whose
					// watch-only flag is set follows view changes like any observer
					m.fail(c, "view-change-after-commit-while-watch-only", "n%d entered view %d at height %d after its (pre)commit of view %d while its watch-only flag was set", n.ID, e.V, e.H, s.lockView)
					s.lockView, s.lockSeq = int(e.V), e.Seq // the lock moves with the node; a second signature stays a violation
					s.tainted = true
					if s.maxView < int(e.V) {
						s.maxView = int(e.V)
					}
				} else if s.lockView >= 0 && s.height == e.H && s.tainted {
					m.inc("consequences-of-the-watch-only-finding-not-judged")
					s.lockView, s.lockSeq = int(e.V), e.Seq
				} else if s.lockView >= 0 && s.height == e.H {
					m.fail(c, "view-change-after-commit", "n%d entered view %d at height %d after its (pre)commit of view %d", n.ID, e.V, e.H, s.lockView)
				}
				m.inc("view-entries-seen")
			} else {
				s = &lockState{height: e.H, byTypeView: map[[2]int]vnet.H{}, lockView: -1, maxView: -1}
				st[n.ID] = s
			}
		case vnet.KAPIRet:
			if s.lockView >= 0 && s.height == e.H && int(e.V) != s.lockView && !s.tainted {
				m.fail(c, "view-moved-after-commit", "n%d is in view %d after its (pre)commit of view %d at height %d", n.ID, e.V, s.lockView, e.H)
			}
			if s.lockView >= 0 {
				m.inc("api-returns-while-locked")
			}
		}
	}
}

// ------------------------------------------------------------------ C04

// Gate is the C04 monitor: quorum-gated progress, evaluated online at every
// send and every view entry against the node's own tables.
type Gate struct {
	Base
	lastVerify map[int]*vnet.Event
}

func NewGate() *Gate { return &Gate{lastVerify: map[int]*vnet.Event{}} }

func (m *Gate) Event(c *vnet.Cluster, e *vnet.Event) {
	if e.Node < 0 {
		return
	}
	n := c.Nodes[e.Node]
	if n.Role != vnet.Honest {
		return
	}
	d := n.D
	switch e.Kind {
	case vnet.KVerifyBlock, vnet.KVerifyPreBlock:
		m.lastVerify[n.ID] = e
	case vnet.KEpoch:
		delete(m.lastVerify, n.ID)
		if e.Note == "first" || e.H != e.TH {
			return
		}
		if e.V <= e.TV {
			m.fail(c, "view-not-increased", "n%d moved from view %d to %d at height %d", n.ID, e.TV, e.V, e.H)
			return
		}
		m.inc("view-entries-checked")
		nv := len(d.Validators)
		cnt := 0
		for _, cp := range d.LastChangeViewPayloads {
			p := payloadOf(cp)
			if p == nil || p.T != dbft.ChangeViewType || p.Hgt != e.H {
				continue
			}
			if p.Body.(*vnet.ChView).NewView >= e.V {
				cnt++
			}
		}
		if cnt < mOf(nv) {
			m.fail(c, "view-entry-without-quorum", "n%d entered view %d at height %d holding %d change-view requests for >= %d (M=%d)", n.ID, e.V, e.H, cnt, e.V, mOf(nv))
		}
	case vnet.KSend:
		p := e.P
		switch p.T {
		case dbft.PrepareResponseType:
			m.inc("responses-checked")
			req := m.proposal(c, n, "PrepareResponse")
			if req == nil {
				return
			}
			if p.Body.(*vnet.PrepResp).Prep != req.Hash() {
				m.fail(c, "response-names-other-proposal", "n%d response names %s, proposal is %s", n.ID, p.Body.(*vnet.PrepResp).Prep, req.Hash())
			}
			m.haveTxs(c, n, req, "PrepareResponse")
			lv := m.lastVerify[n.ID]
			r := req.Body.(*vnet.PrepReq)
			switch {
			case lv == nil || lv.H != d.BlockIndex || lv.V != d.ViewNumber:
				m.fail(c, "response-without-verification", "n%d responded at (%d,%d) without a block verification in this view", n.ID, d.BlockIndex, d.ViewNumber)
			case !lv.OK:
				m.fail(c, "response-to-rejected-block", "n%d responded at (%d,%d) although its verification callback rejected the block", n.ID, d.BlockIndex, d.ViewNumber)
			default:
				var hd *vnet.Header
				if lv.Blk != nil {
					hd = &lv.Blk.Header
				} else {
					hd = &lv.PB.Header
				}
				if hd.Ts != r.Ts || hd.Nonce != r.Nc || !eqHashes(hd.TxH, r.Hashes) || hd.Idx != req.Hgt {
					m.fail(c, "verified-block-not-proposal", "n%d responded to [%s] but verified a block with other content", n.ID, req.Short())
				}
			}
		case dbft.CommitType, dbft.PreCommitType:
			amev := isAMEV(c, p.Hgt)
			if (p.T == dbft.CommitType) == amev {
				return // the second phase under anti-MEV is C07's business
			}
			m.inc("commit-sends-checked")
			req := m.proposal(c, n, p.T.String())
			if req == nil {
				return
			}
			m.haveTxs(c, n, req, p.T.String())
			nv := len(d.Validators)
			cnt := 0
			rh := req.Hash()
			for i, cp := range d.PreparationPayloads {
				q := payloadOf(cp)
				if q == nil || q.View != d.ViewNumber || q.Hgt != d.BlockIndex || int(q.Idx) != i {
					continue
				}
				if q == req || (q.T == dbft.PrepareResponseType && q.Body.(*vnet.PrepResp).Prep == rh) {
					cnt++
				}
			}
			if cnt < mOf(nv) {
				m.fail(c, "commit-without-quorum", "n%d sent %s at (%d,%d) holding %d preparations naming the proposal (M=%d)", n.ID, p.T, d.BlockIndex, d.ViewNumber, cnt, mOf(nv))
			}
		}
	}
}

func eqHashes(a, b []vnet.H) bool {
	if len(a) != len(b) {
		return false
	}
	for i := range a {
		if a[i] != b[i] {
			return false
		}
	}
	return true
}

func (m *Gate) proposal(c *vnet.Cluster, n *vnet.Node, what string) *vnet.Payload {
	d := n.D
	pi := primaryOf(d.BlockIndex, d.ViewNumber, len(d.Validators))
	p := payloadOf(d.PreparationPayloads[pi])
	if p == nil || p.T != dbft.PrepareRequestType {
		m.fail(c, "send-without-proposal", "n%d sent %s at (%d,%d) without holding the primary's proposal", n.ID, what, d.BlockIndex, d.ViewNumber)
		return nil
	}
	if p.View != d.ViewNumber || p.Hgt != d.BlockIndex || int(p.Idx) != pi {
		m.fail(c, "send-on-foreign-proposal", "n%d sent %s at (%d,%d) on proposal [%s] (designated primary %d)", n.ID, what, d.BlockIndex, d.ViewNumber, p.Short(), pi)
		return nil
	}
	return p
}

func (m *Gate) haveTxs(c *vnet.Cluster, n *vnet.Node, req *vnet.Payload, what string) {
	for _, h := range req.Body.(*vnet.PrepReq).Hashes {
		if _, ok := n.D.Transactions[h]; !ok {
			m.fail(c, "send-with-missing-tx", "n%d sent %s at (%d,%d) while transaction %s of the proposal is missing", n.ID, what, n.D.BlockIndex, n.D.ViewNumber, h)
			return
		}
	}
}

// ------------------------------------------------------------------ C07

// Phase is the C07 monitor: anti-MEV phase discipline.
type Phase struct {
	Base
	st map[int]*phaseState
}

type phaseState struct {
	height       uint32
	inst         int
	preCommitOwn bool
	preBlockOK   int
}

func NewPhase() *Phase { return &Phase{st: map[int]*phaseState{}} }

func (m *Phase) Event(c *vnet.Cluster, e *vnet.Event) {
	if e.Node < 0 {
		return
	}
	n := c.Nodes[e.Node]
	if n.Role != vnet.Honest || n.D == nil || n.D.Validators == nil {
		return
	}
	d := n.D
	s := m.st[n.ID]
	if s == nil || s.height != d.BlockIndex || s.inst != n.Restarts {
		s = &phaseState{height: d.BlockIndex, inst: n.Restarts}
		m.st[n.ID] = s
	}
	amev := isAMEV(c, d.BlockIndex)
	switch e.Kind {
	case vnet.KSend:
		switch e.P.T {
		case dbft.PreCommitType:
			if !amev {
				m.fail(c, "precommit-below-enabling-height", "n%d sent a pre-commit at height %d (enabling height %d)", n.ID, d.BlockIndex, c.Cfg.AMEV)
			}
			s.preCommitOwn = true
			m.inc("precommit-sends")
		case dbft.CommitType:
			if !amev {
				m.inc("commit-sends-plain")
				return
			}
			m.inc("commit-sends-amev")
			if !s.preCommitOwn && n.Restarts > 0 && d.MyIndex >= 0 {
				// a restarted node: the pre-commit it broadcast before the restart came back from its peers
				if q := payloadOf(d.PreCommitPayloads[d.MyIndex]); q != nil && !q.Forged && q.Hgt == d.BlockIndex {
					s.preCommitOwn = true
					m.inc("own-precommits-readopted-after-restart")
				}
			}
			if !s.preCommitOwn {
				m.fail(c, "commit-before-own-precommit", "n%d sent its commit at (%d,%d) without having sent a pre-commit", n.ID, d.BlockIndex, d.ViewNumber)
			}
			if s.preBlockOK == 0 {
				m.fail(c, "commit-before-preblock", "n%d sent its commit at (%d,%d) before the pre-block callback succeeded", n.ID, d.BlockIndex, d.ViewNumber)
			}
			cnt := 0
			for i, cp := range d.PreCommitPayloads {
				q := payloadOf(cp)
				if q != nil && q.View == d.ViewNumber && int(q.Idx) == i && q.T == dbft.PreCommitType {
					cnt++
				}
			}
			if cnt < mOf(len(d.Validators)) {
				m.fail(c, "commit-without-precommit-quorum", "n%d sent its commit at (%d,%d) holding %d current-view pre-commits (M=%d)", n.ID, d.BlockIndex, d.ViewNumber, cnt, mOf(len(d.Validators)))
			}
		}
	case vnet.KAPIRet:
		if !amev && c.Cfg.AMEV >= 0 {
			m.inc("api-returns-below-enabling-height")
			for i, cp := range d.PreCommitPayloads {
				if q := payloadOf(cp); q != nil {
					m.fail(c, "precommit-acted-upon-below-enabling-height", "n%d stores pre-commit [%s] in slot %d at height %d, the extension is enabled from height %d", n.ID, q.Short(), i, d.BlockIndex, c.Cfg.AMEV)
					break
				}
			}
		}
	case vnet.KProcessPreBlock:
		if !amev {
			m.fail(c, "preblock-below-enabling-height", "n%d pre-block callback at height %d (enabling height %d)", n.ID, d.BlockIndex, c.Cfg.AMEV)
		}
		if e.OK {
			s.preBlockOK++
			if s.preBlockOK > 1 {
				m.fail(c, "preblock-twice", "n%d pre-block callback succeeded %d times at height %d", n.ID, s.preBlockOK, d.BlockIndex)
			}
			m.inc("preblocks-processed")
		} else {
			m.inc("preblock-failures-injected")
		}
	case vnet.KNewBlock:
		if amev {
			m.inc("final-blocks-built")
			if s.preBlockOK == 0 {
				m.fail(c, "block-built-before-preblock", "n%d built the final block at (%d,%d) before the pre-block callback succeeded", n.ID, d.BlockIndex, d.ViewNumber)
			}
		}
	case vnet.KSign:
		switch {
		case e.Note == "preblock" && !amev:
			m.fail(c, "setdata-below-enabling-height", "n%d generated pre-commit data at height %d", n.ID, d.BlockIndex)
		case e.Note == "block" && amev && s.preBlockOK == 0:
			m.fail(c, "sign-before-preblock", "n%d signed a block at (%d,%d) before the pre-block callback succeeded", n.ID, d.BlockIndex, d.ViewNumber)
		}
	case vnet.KProcessBlock:
		if amev && e.OK && s.preBlockOK == 0 && !n.Watch && n.D.MyIndex >= 0 {
			m.fail(c, "block-before-preblock", "n%d accepted a block at height %d without a successful pre-block callback", n.ID, d.BlockIndex)
		}
	}
}

// ------------------------------------------------------------------ C10

// Wake is the C10 monitor: an undecided validator always has a timer armed
// for its current epoch when control returns to the application.
type Wake struct {
	Base
	callEpoch map[int][2]uint32
	resetIn   map[int]bool
	// watchIn: the epoch (height, view) in which the node was last seen with its watch-only flag set.
	// The library arms no timer for a watch-only node and ignores its timeouts, so a node whose flag
	// is switched off in the middle of an epoch has no timer until the next (re)initialisation: the
	// recorded finding of DESIGN 5.19 (signature no-timer-after-watch-only-flag-switched-off).
	watchIn map[int][2]uint32
}

func NewWake() *Wake {
	return &Wake{callEpoch: map[int][2]uint32{}, resetIn: map[int]bool{}, watchIn: map[int][2]uint32{}}
}

func (m *Wake) Event(c *vnet.Cluster, e *vnet.Event) {
	if e.Node < 0 {
		return
	}
	n := c.Nodes[e.Node]
	if n.Role != vnet.Honest || n.D == nil {
		return
	}
	d := n.D
	if n.Watch && d.Validators != nil {
		m.watchIn[n.ID] = [2]uint32{d.BlockIndex, uint32(d.ViewNumber)}
	}
	switch e.Kind {
	case vnet.KAPICall:
		if e.Depth == 0 {
			m.callEpoch[n.ID] = [2]uint32{e.H, uint32(e.V)}
			m.resetIn[n.ID] = false
		}
	case vnet.KTimerReset:
		m.resetIn[n.ID] = true
		if e.Dur < 0 {
			m.fail(c, "negative-timer", "n%d armed its timer with %s at (%d,%d)", n.ID, e.Dur, e.H, e.V)
		}
	case vnet.KAPIRet:
		if e.Depth != 0 || d.Validators == nil {
			return
		}
		// "accepted a block for its current height" is judged by the application's ledger, not by the library's flag
		accepted := n.Height() >= d.BlockIndex
		if d.BlockSent() && !accepted {
			m.inc("decided-flag-without-accepted-block")
		}
		if d.MyIndex < 0 || n.Watch || accepted {
			m.inc("api-returns-not-applicable")
			return
		}
		m.inc("api-returns-checked:" + e.API)
		t := n.Timer
		if w, ok := m.watchIn[n.ID]; ok && w == [2]uint32{d.BlockIndex, uint32(d.ViewNumber)} && (!t.Armed() || !t.Pending() || t.Height() != d.BlockIndex || t.View() != d.ViewNumber) {
			m.fail(c, "no-timer-after-watch-only-flag-switched-off", "n%d returned from %s at (%d,%d) as an active validator without a pending timer for that epoch: its watch-only flag was set earlier in this epoch (no timer is armed for, and no timeout handled by, a watch-only node) and has been switched off since", n.ID, e.API, d.BlockIndex, d.ViewNumber)
			return
		}
		switch {
		case !t.Armed():
			m.fail(c, "no-timer", "n%d returned from %s at (%d,%d) without any timer armed", n.ID, e.API, d.BlockIndex, d.ViewNumber)
		case t.Height() != d.BlockIndex || t.View() != d.ViewNumber:
			m.fail(c, "timer-for-other-epoch", "n%d returned from %s at (%d,%d) with its timer armed for (%d,%d)", n.ID, e.API, d.BlockIndex, d.ViewNumber, t.Height(), t.View())
		case !t.Pending():
			m.fail(c, "timer-consumed", "n%d returned from %s at (%d,%d) with its timer expired and not re-armed", n.ID, e.API, d.BlockIndex, d.ViewNumber)
		case t.Total() < 0:
			m.fail(c, "negative-timer", "n%d returned from %s with a timer of total duration %s", n.ID, e.API, t.Total())
		}
		if e.API == "OnTimeout" {
			ce := m.callEpoch[n.ID]
			if e.TH == ce[0] && uint32(e.TV) == ce[1] {
				m.inc("matching-timeouts")
				if !m.resetIn[n.ID] {
					m.fail(c, "timeout-without-rearm", "n%d OnTimeout(%d,%d) for its current epoch neither re-armed the timer nor ended in a decision", n.ID, e.TH, e.TV)
				}
			}
		}
	}
}

func init() { _ = fmt.Sprint }
