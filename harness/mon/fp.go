package mon

import (
	"fmt"
	"sort"
	"strings"

	"github.com/nspcc-dev/dbft"
	"github.com/nspcc-dev/dbft/verifh/vnet"
)

// FP is a canonical fingerprint of a node's whole consensus state.
type FP struct {
	Core     string // everything except LastSeenMessage, the future-message cache and the timer
	LastSeen string
	Cache    string
	Timer    string
}

func slotString(p dbft.ConsensusPayload[vnet.H]) string {
	q := payloadOf(p)
	if q == nil {
		return "-"
	}
	return fmt.Sprintf("%d/%d/%d/%s", q.T, q.View, q.Idx, q.Hash())
}

func tableString(name string, t []dbft.ConsensusPayload[vnet.H]) string {
	var sb strings.Builder
	sb.WriteString(name)
	sb.WriteByte('[')
	for _, p := range t {
		sb.WriteString(slotString(p))
		sb.WriteByte(' ')
	}
	sb.WriteByte(']')
	return sb.String()
}

// Fingerprint computes the fingerprint of node n.
func Fingerprint(n *vnet.Node) FP {
	d := n.D
	var sb strings.Builder
	fmt.Fprintf(&sb, "h=%d v=%d my=%d prim=%d prev=%s ts=%d nonce=%d ", d.BlockIndex, d.ViewNumber, d.MyIndex, d.PrimaryIndex, d.PrevHash, d.Timestamp, d.Nonce)
	sb.WriteString("txh[")
	for _, h := range d.TransactionHashes {
		sb.WriteString(h.String())
		sb.WriteByte(' ')
	}
	sb.WriteString("] miss[")
	for _, h := range d.MissingTransactions {
		sb.WriteString(h.String())
		sb.WriteByte(' ')
	}
	sb.WriteString("] txs[")
	keys := make([]string, 0, len(d.Transactions))
	for h := range d.Transactions {
		keys = append(keys, h.String())
	}
	sort.Strings(keys)
	sb.WriteString(strings.Join(keys, " "))
	sb.WriteString("] vals[")
	for _, v := range d.Validators {
		if p, ok := v.(*vnet.Pub); ok {
			fmt.Fprintf(&sb, "%d ", p.ID)
		}
	}
	sb.WriteString("] ")
	sb.WriteString(tableString("prep", d.PreparationPayloads))
	sb.WriteString(tableString("pc", d.PreCommitPayloads))
	sb.WriteString(tableString("c", d.CommitPayloads))
	sb.WriteString(tableString("cv", d.ChangeViewPayloads))
	sb.WriteString(tableString("lcv", d.LastChangeViewPayloads))
	if hd := d.Header(); hd != nil {
		fmt.Fprintf(&sb, " hdr=%s", hd.(*vnet.Block).Hash())
	}
	if ph := d.PreHeader(); ph != nil {
		fmt.Fprintf(&sb, " prehdr=%s", ph.(*vnet.PreBlock).Hash())
	}
	if pb := d.PreBlock(); pb != nil {
		fmt.Fprintf(&sb, " preblk=%s", pb.(*vnet.PreBlock).Hash())
	}
	f := d.VerifFlags()
	fmt.Fprintf(&sb, " flags=%v/%v/%v/%v lbts=%d lbt=%d lbi=%d lbv=%d tpb=%d mtpb=%d pst=%d rtt=%d",
		f.BlockProcessed, f.PreBlockProcessed, f.TxSubscriptionOn, f.Recovering, f.LastBlockTimestamp, f.LastBlockTime.UnixNano(),
		f.LastBlockIndex, f.LastBlockView, f.TimePerBlock, f.MaxTimePerBlock, f.PrepareSentTime.UnixNano(), f.RTTAvg)
	res := FP{Core: sb.String()}

	sb.Reset()
	for i, hv := range d.LastSeenMessage {
		if hv == nil {
			fmt.Fprintf(&sb, "%d:- ", i)
		} else {
			fmt.Fprintf(&sb, "%d:%d/%d ", i, hv.Height, hv.View)
		}
	}
	res.LastSeen = sb.String()

	sb.Reset()
	cache := d.VerifCache()
	hs := make([]uint32, 0, len(cache))
	for h := range cache {
		hs = append(hs, h)
	}
	sort.Slice(hs, func(i, j int) bool { return hs[i] < hs[j] })
	for _, h := range hs {
		fmt.Fprintf(&sb, "%d{", h)
		for k, box := range cache[h] {
			idx := make([]int, 0, len(box))
			for i := range box {
				idx = append(idx, int(i))
			}
			sort.Ints(idx)
			fmt.Fprintf(&sb, "%d:", k)
			for _, i := range idx {
				fmt.Fprintf(&sb, "%d=%s,", i, slotString(box[uint16(i)]))
			}
			sb.WriteByte(';')
		}
		sb.WriteByte('}')
	}
	res.Cache = sb.String()

	dl, pend := n.Timer.Deadline()
	res.Timer = fmt.Sprintf("gen=%d h=%d v=%d dl=%d total=%d pending=%v", n.Timer.Gen, n.Timer.Height(), n.Timer.View(), dl, n.Timer.Total(), pend)
	return res
}

// Diff describes which parts of two fingerprints differ.
func (a FP) Diff(b FP) string {
	var parts []string
	if a.Core != b.Core {
		parts = append(parts, "state: "+firstDiff(a.Core, b.Core))
	}
	if a.LastSeen != b.LastSeen {
		parts = append(parts, "last-seen")
	}
	if a.Cache != b.Cache {
		parts = append(parts, "cache")
	}
	if a.Timer != b.Timer {
		parts = append(parts, "timer: "+a.Timer+" -> "+b.Timer)
	}
	return strings.Join(parts, "; ")
}

func firstDiff(a, b string) string {
	i := 0
	for i < len(a) && i < len(b) && a[i] == b[i] {
		i++
	}
	lo := i - 40
	if lo < 0 {
		lo = 0
	}
	ha, hb := i+60, i+60
	if ha > len(a) {
		ha = len(a)
	}
	if hb > len(b) {
		hb = len(b)
	}
	return fmt.Sprintf("...%s  ->  ...%s", a[lo:ha], b[lo:hb])
}
