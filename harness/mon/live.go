package mon

import (
	"fmt"
	"time"

	"github.com/nspcc-dev/dbft"
	"github.com/nspcc-dev/dbft/verifh/vnet"
)

// Live is the C09 monitor: bounded progress in virtual time after the last
// fault event (GST). Every live validator's ledger height must keep
// increasing within B = 16 * 2^(v0+s) * TimePerBlock per height, where s is
// the number of silent validators and v0 the highest view held by a live node
// at GST; with validators silent from the start every decision is taken in a
// view <= s.
type Live struct {
	Base
	Silent       int
	FromStart    bool // faults are "silent from the start" only
	// AsyncPrefix: the run had an arbitrary asynchronous (loss-free) prefix; see End for the bound.
	AsyncPrefix bool
	lockedAtGST int
	// viaRecovery: (node, height, view) entered while the node was processing a recovery message; a primary
	// that enters its view this way arms a backup's timeout instead of proposing at once (DESIGN 5.21)
	viaRecovery map[[3]uint32]bool
	inRecovery  map[int]bool
	Inconclusive bool
	v0           int
	gstSeen      int64
	cu           catchUp
}

// recovered: proposals of a restarted node that came back to it inside a recovery message,
// keyed by node/height/view.
type recKey struct {
	node int
	inst int // the instance (restart count) that was told
	h    uint32
	v    byte
}

func (m *Live) catchUpRule(c *vnet.Cluster, e *vnet.Event) {
	if m.cu.recovered == nil {
		m.cu.recovered = map[recKey]vnet.H{}
	}
	m.cu.rule(&m.Base, c, e)
}

// catchUp is the rule shared by C09 and C03: a restarted node that was handed its own earlier
// proposal for (h, v) inside a recovery message must not broadcast another proposal for (h, v).
type catchUp struct {
	recovered map[recKey]vnet.H
}

func (u *catchUp) rule(b *Base, c *vnet.Cluster, e *vnet.Event) {
	if e.Node < 0 {
		return
	}
	n := c.Nodes[e.Node]
	if n.Role != vnet.Honest || n.Restarts == 0 {
		return
	}
	if u.recovered == nil {
		u.recovered = map[recKey]vnet.H{}
	}
	switch {
	case e.Kind == vnet.KAPICall && e.API == "OnReceive" && e.P != nil && e.P.T == dbft.RecoveryMessageType:
		rm := e.P.Body.(*vnet.RecMsg)
		if q := rm.PrepReq; q != nil && n.D != nil && n.D.Validators != nil && int(q.Idx) == n.D.MyIndex && q.Hgt == n.D.BlockIndex && !q.Forged {
			u.recovered[recKey{n.ID, n.Restarts, q.Hgt, q.View}] = q.Hash()
			b.inc("own-proposals-returned-to-restarted-node")
		}
	case e.Kind == vnet.KAPIRet && n.D != nil && n.D.Validators != nil && n.D.MyIndex >= 0:
		// the proposal sits in the node's own slot again: from now on it counts as said
		if q := payloadOf(n.D.PreparationPayloads[n.D.MyIndex]); q != nil && q.T == dbft.PrepareRequestType && q.Hgt == n.D.BlockIndex && q.View == n.D.ViewNumber {
			k := recKey{n.ID, n.Restarts, q.Hgt, q.View}
			if _, ok := u.recovered[k]; ok {
				b.inc("own-proposals-readopted-by-restarted-node")
			}
		}
	case e.Kind == vnet.KSend && e.P.T == dbft.PrepareRequestType:
		if old, ok := u.recovered[recKey{n.ID, n.Restarts, e.P.Hgt, e.P.View}]; ok && old != e.P.Hash() {
			b.fail(c, "restarted-node-ignores-recovered-proposal", "restarted n%d was handed its own proposal %s for (%d,%d) in a recovery message and nevertheless proposed another block %s for that view", n.ID, old, e.P.Hgt, e.P.View, e.P.Hash())
		}
	}
}

func (m *Live) Event(c *vnet.Cluster, e *vnet.Event) {
	m.catchUpRule(c, e)
	if e.Node >= 0 {
		if m.inRecovery == nil {
			m.inRecovery, m.viaRecovery = map[int]bool{}, map[[3]uint32]bool{}
		}
		switch {
		case e.Kind == vnet.KAPICall && e.Depth == 0:
			m.inRecovery[e.Node] = e.API == "OnReceive" && e.P != nil && e.P.T == dbft.RecoveryMessageType
		case e.Kind == vnet.KAPIRet && e.Depth == 0:
			m.inRecovery[e.Node] = false
		case e.Kind == vnet.KEpoch && e.H == e.TH && m.inRecovery[e.Node]:
			m.viaRecovery[[3]uint32{uint32(e.Node), e.H, uint32(e.V)}] = true
		}
	}
	// track the highest view held by a live node up to the last fault instant
	if e.Kind == vnet.KEpoch && e.Clock <= c.LastFault() && int(e.V) > m.v0 {
		m.v0 = int(e.V)
	}
	if c.LastFault() != m.gstSeen {
		m.gstSeen = c.LastFault()
		m.lockedAtGST = 0
		for _, n := range c.Nodes {
			if !n.Live() || n.D.Validators == nil {
				continue
			}
			if n.D.CommitSent() || n.D.PreCommitSent() {
				m.lockedAtGST++
			}
			if int(n.D.ViewNumber) > m.v0 {
				m.v0 = int(n.D.ViewNumber)
			}
			// a view the node has already asked for counts: its timer runs with that view's (doubled) duration
			if i := n.D.MyIndex; i >= 0 && i < len(n.D.ChangeViewPayloads) && n.D.ChangeViewPayloads[i] != nil {
				if q := payloadOf(n.D.ChangeViewPayloads[i]); q != nil {
					if cv, ok := q.Body.(*vnet.ChView); ok && int(cv.NewView) > m.v0 {
						m.v0 = int(cv.NewView)
					}
				}
			}
		}
	}
}

func (m *Live) End(c *vnet.Cluster) {
	if c.Aborted {
		return
	}
	if len(c.Cut) > 0 {
		// the harness stopped the run (step cap) before the partition healed: there was no GST to judge from
		m.Inconclusive = true
		m.inc("runs-ended-before-the-partition-healed")
		return
	}
	gst := c.LastFault()
	T := int64(c.Cfg.TPB)
	if c.Cfg.MaxTPB > c.Cfg.TPB {
		T = int64(c.Cfg.MaxTPB) // dynamic block time: an idle round legitimately lasts up to the maximum block time
	}
	exp := m.v0 + m.Silent
	if m.AsyncPrefix {
		// up to F validators may end up commit-locked in a view the others abandon (they accept the
		// preparations which the others, already asking for a view change, refuse): each such view costs
		// one more round of the ladder when its proposer is one of the locked ones
		exp += fOf(c.Cfg.N)
	}
	if exp > 20 {
		exp = 20
	}
	B := 16 * (int64(1) << uint(exp)) * T
	target := c.TargetHeight()
	m.add("v0-at-gst", int64(m.v0))
	for _, n := range c.Nodes {
		if n.Role != vnet.Honest || !n.Live() {
			continue
		}
		last := gst
		h := c.Cfg.BaseHeight
		for _, a := range n.Accepted {
			if a.Inst != n.Restarts && a.Clock < gst {
				h = a.Height
				continue
			}
			if a.Clock < gst {
				h = a.Height
				continue
			}
			m.inc("post-gst-decisions")
			if a.Synced {
				m.inc("post-gst-ledger-catchups")
			}
			if gap := a.Clock - last; gap > B {
				m.fail(c, "progress-bound-exceeded", "n%d needed %s of virtual time after %s to get height %d (bound %s = 16*2^(%d+%d)*%s, GST=%s)", n.ID, time.Duration(gap), time.Duration(last), a.Height, time.Duration(B), m.v0, m.Silent, time.Duration(T), time.Duration(gst))
			}
			if m.FromStart && !a.Synced && int(a.View) > m.Silent && m.primariesWaitedAfterRecovery(c, a.Height, int(a.View)) {
				m.fail(c, "view-above-silent-count:primary-waited-after-recovery", "n%d decided height %d in view %d with %d validator(s) silent from the start: the live primary of every other wasted view entered its view while processing a recovery message and therefore armed a backup's timeout instead of proposing at once; the backups timed out first", n.ID, a.Height, a.View, m.Silent)
			} else if m.FromStart && !a.Synced && int(a.View) > m.Silent {
				m.fail(c, "view-above-silent-count", "n%d decided height %d in view %d with %d validator(s) silent from the start", n.ID, a.Height, a.View, m.Silent)
			}
			last, h = a.Clock, a.Height
		}
		if n.Height() < target {
			if c.Clock-last > B {
				if who, ok := amnesiacPrimaryEquivocated(c, n.Height()+1); ok {
					m.fail(c, "stall:amnesiac-primary-equivocation", "n%d is stuck at height %d: primary n%d restarted after proposing and proposed a different block for the same view; the commits/preparations of the others are split between the two proposals (bound %s exceeded by far, steps %d)", n.ID, n.Height(), who, time.Duration(B), c.Steps)
					continue
				}
				if views, ok := commitSplit(c, n.Height()+1); ok {
					m.fail(c, "stall:commit-split", "n%d is stuck at height %d: the live validators are commit-locked in different views (%s) and no view can collect M commits any more - the dBFT 2.0 liveness lock (bound %s exceeded by far, steps %d)", n.ID, n.Height(), views, time.Duration(B), c.Steps)
					continue
				}
				m.fail(c, "stalled", "n%d is stuck at height %d (view %d) for %s of virtual time after GST=%s (bound %s, target %d, steps %d)", n.ID, n.Height(), n.D.ViewNumber, time.Duration(c.Clock-last), time.Duration(gst), time.Duration(B), target, c.Steps)
			} else {
				m.Inconclusive = true
				m.inc("runs-ended-before-bound")
			}
		} else {
			m.inc("nodes-reached-target")
		}
		_ = h
	}
}

// primariesWaitedAfterRecovery tells whether every wasted view (0..decided-1) of height h either had a
// silent primary or a live primary that entered the view while it was processing a recovery message.
func (m *Live) primariesWaitedAfterRecovery(c *vnet.Cluster, h uint32, decided int) bool {
	nv := len(c.Validators(h))
	if nv == 0 {
		return false
	}
	waited := 0
	for v := 0; v < decided; v++ {
		p := c.NodeOfIndex(h, primaryOf(h, byte(v), nv))
		if p == nil {
			return false
		}
		if p.Role == vnet.Silent {
			continue
		}
		if !m.viaRecovery[[3]uint32{uint32(p.ID), h, uint32(v)}] {
			return false
		}
		waited++
	}
	return waited > 0
}

// commitSplit tells whether the validators working on height h are commit-locked in such a way that
// no view can ever collect M commits: for every view the validators locked in
// it plus all validators that are not locked at all are fewer than M (a locked validator never
// changes view, an unlocked one can only move upwards).
func commitSplit(c *vnet.Cluster, h uint32) (string, bool) {
	locked := map[byte]int{}
	var unlockedViews []byte
	total := 0
	for _, n := range c.Nodes {
		if n.Role == vnet.Silent {
			total++
			continue
		}
		if n.Role != vnet.Honest || !n.Live() || n.D.Validators == nil || n.D.MyIndex < 0 {
			continue
		}
		total++
		if n.D.BlockIndex != h {
			continue // already past the height (or behind): not part of the argument
		}
		if n.D.CommitSent() || n.D.PreCommitSent() {
			locked[n.D.ViewNumber]++
		} else {
			unlockedViews = append(unlockedViews, n.D.ViewNumber)
		}
	}
	M := mOf(total)
	if len(locked) == 0 || len(unlockedViews) >= M {
		return "", false // nobody is locked, or the unlocked validators alone can still finish a later view
	}
	desc := ""
	for v, k := range locked {
		canJoin := 0
		for _, u := range unlockedViews {
			if u <= v {
				canJoin++ // an unlocked validator only moves upwards
			}
		}
		if k+canJoin >= M {
			return "", false
		}
		desc += fmt.Sprintf(" view %d: %d locked (+%d that could still join);", v, k, canJoin)
	}
	return fmt.Sprintf("%s %d validators not locked, in views %v; M=%d", desc, len(unlockedViews), unlockedViews, M), true
}

// amnesiacPrimaryEquivocated tells whether a restarted node broadcast two
// different proposals for one view of height h (one per instance).
func amnesiacPrimaryEquivocated(c *vnet.Cluster, h uint32) (int, bool) {
	type key struct {
		node int
		view byte
	}
	seen := map[key]vnet.H{}
	for _, e := range c.Trace {
		if e.Kind != vnet.KSend || e.P.T != dbft.PrepareRequestType || e.P.Hgt != h {
			continue
		}
		// view 0: Start proposes before anything can be recovered; later views: the restarted primary's timer
		// may fire before a recovery message brings its earlier proposal back (if it was handed the proposal
		// first and proposes nevertheless, the catch-up rule reports that separately as a violation)
		if c.Nodes[e.Node].Restarts == 0 {
			continue
		}
		k := key{e.Node, e.P.View}
		if old, ok := seen[k]; ok && old != e.P.Hash() {
			return e.Node, true
		}
		seen[k] = e.P.Hash()
	}
	return -1, false
}
