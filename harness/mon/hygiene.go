package mon

import (
	"fmt"

	"github.com/nspcc-dev/dbft"
	"github.com/nspcc-dev/dbft/verifh/vnet"
)

// ------------------------------------------------------------------ C05

// Once is the C05 monitor: one decision per height, quiescence between the
// decision and Reset, clean re-initialisation.
type Once struct {
	Base
	st map[int]*onceState
}

type onceState struct {
	inst      int
	decided   map[uint32]int
	quiet     bool // between a successful ProcessBlock and the next Reset/Start
	quietFP   FP
	quietH    uint32
	inReset   bool
	resetSeen bool // first epoch event of the Reset/Start call seen
	apiArg    *vnet.Payload
	api       string
}

func NewOnce() *Once { return &Once{st: map[int]*onceState{}} }

func allNil(t []dbft.ConsensusPayload[vnet.H]) bool {
	for _, p := range t {
		if p != nil {
			return false
		}
	}
	return true
}

func (m *Once) Event(c *vnet.Cluster, e *vnet.Event) {
	if e.Node < 0 {
		return
	}
	n := c.Nodes[e.Node]
	if n.Role != vnet.Honest || n.D == nil {
		return
	}
	d := n.D
	s := m.st[n.ID]
	if s == nil || s.inst != n.Restarts {
		s = &onceState{inst: n.Restarts, decided: map[uint32]int{}}
		m.st[n.ID] = s
	}
	switch e.Kind {
	case vnet.KAPICall:
		s.api, s.apiArg = e.API, e.P
		if e.API == "Reset" || e.API == "Start" {
			s.quiet = false
			s.inReset, s.resetSeen = true, false
		} else if s.quiet {
			m.inc("api-calls-while-decided:" + e.API)
		}
	case vnet.KEpoch:
		if s.inReset && !s.resetSeen {
			// the instant right after Context.reset inside Reset/Start, before cached payloads are replayed
			s.resetSeen = true
			m.inc("reinitialisations-audited")
			m.auditFresh(c, n)
		}
	case vnet.KAPIRet:
		if e.API == "OnReceive" && e.P != nil && d.Validators != nil {
			m.checkCached(c, n, e.P)
		}
		if e.API == "Reset" || e.API == "Start" {
			s.inReset = false
			m.auditAfterReset(c, n)
		} else if s.quiet && s.quietH == d.BlockIndex && s.quietFP.Core != "" {
			fp := Fingerprint(n)
			if fp.Core != s.quietFP.Core {
				m.fail(c, "state-changed-after-decision", "n%d state changed by %s after the block of height %d was handed over and before Reset: %s", n.ID, e.API, d.BlockIndex, firstDiff(s.quietFP.Core, fp.Core))
				s.quietFP = fp
			}
			m.inc("quiescent-api-returns-checked")
		}
	case vnet.KProcessBlock:
		if !e.OK {
			return
		}
		s.decided[e.Blk.Idx]++
		m.inc("decisions")
		if s.decided[e.Blk.Idx] > 1 {
			m.fail(c, "decided-twice", "n%d handed a block of height %d to the application %d times", n.ID, e.Blk.Idx, s.decided[e.Blk.Idx])
		}
	case vnet.KLedger:
		if e.Note == "accepted" {
			// quiescence starts when the callback has returned; the fingerprint is taken at the next API return
			s.quiet, s.quietH = true, d.BlockIndex
			s.quietFP = FP{}
		}
	case vnet.KTimerReset, vnet.KTimerExtend, vnet.KRequestTx, vnet.KProcessPreBlock, vnet.KSubscribe:
		if s.quiet && s.quietFP.Core != "" && !s.inReset {
			m.fail(c, "acted-after-decision", "n%d %s during %s after the block of height %d was handed over and before Reset", n.ID, e.Kind, s.api, s.quietH)
		}
	case vnet.KSend:
		if s.quiet && s.quietFP.Core != "" && !s.inReset {
			ok := e.P.T == dbft.RecoveryMessageType && s.api == "OnReceive" && s.apiArg != nil && s.apiArg.T == dbft.RecoveryRequestType
			if ok {
				m.inc("recovery-replies-after-decision")
			} else {
				m.fail(c, "broadcast-after-decision", "n%d broadcast [%s] during %s after the block of height %d was handed over and before Reset", n.ID, e.P.Short(), s.api, s.quietH)
			}
		}
	}
	// take the reference fingerprint at the first API return after the decision
	if e.Kind == vnet.KAPIRet && s.quiet && s.quietFP.Core == "" && d.BlockSent() {
		s.quietFP = Fingerprint(n)
	}
}

// checkCached: a payload for a future height (or a future view of the current
// height) must be kept for later - also between a decision and the next Reset.
func (m *Once) checkCached(c *vnet.Cluster, n *vnet.Node, p *vnet.Payload) {
	d := n.D
	if int(p.Idx) >= len(d.Validators) {
		return
	}
	box := -1
	switch p.T {
	case dbft.PrepareRequestType, dbft.PrepareResponseType:
		box = 0
	case dbft.ChangeViewType:
		box = 1
	case dbft.PreCommitType:
		box = 2
	case dbft.CommitType:
		box = 3
	default:
		return
	}
	future := p.Hgt > d.BlockIndex || (p.Hgt == d.BlockIndex && p.View > d.ViewNumber && p.T != dbft.ChangeViewType)
	if !future {
		return
	}
	m.inc("future-payloads-checked")
	if d.BlockSent() {
		m.inc("future-payloads-while-decided")
	}
	boxes, ok := d.VerifCache()[p.Hgt]
	if ok {
		if q := payloadOf(boxes[box][p.Idx]); q != nil && q.Hash() == p.Hash() {
			return
		}
	}
	m.fail(c, "future-payload-not-kept", "n%d at (%d,%d, decided=%v) did not keep [%s] for later", n.ID, d.BlockIndex, d.ViewNumber, d.BlockSent(), p.Short())
}

// auditFresh checks the state right after Context.reset of a Reset/Start.
func (m *Once) auditFresh(c *vnet.Cluster, n *vnet.Node) {
	d := n.D
	bad := func(what string) {
		m.fail(c, "dirty-reinitialisation", "n%d right after (re)initialisation at height %d: %s", n.ID, d.BlockIndex, what)
	}
	if d.BlockIndex != n.Height()+1 {
		bad(fmt.Sprintf("BlockIndex=%d, ledger height=%d", d.BlockIndex, n.Height()))
	}
	if d.ViewNumber != 0 {
		bad(fmt.Sprintf("view %d", d.ViewNumber))
	}
	if d.PrevHash != n.TipHash() {
		bad("PrevHash is not the ledger tip")
	}
	ids := c.Validators(d.BlockIndex)
	if len(d.Validators) != len(ids) {
		bad(fmt.Sprintf("%d validators, schedule has %d", len(d.Validators), len(ids)))
	} else {
		for i, id := range ids {
			if d.Validators[i] != dbft.PublicKey(c.Pubs[id]) {
				bad(fmt.Sprintf("validator %d differs from the schedule", i))
				break
			}
		}
	}
	if want := c.ValidatorIndex(d.BlockIndex, n.ID); d.MyIndex != want {
		bad(fmt.Sprintf("MyIndex=%d, expected %d", d.MyIndex, want))
	}
	if d.N() != len(ids) || d.F() != fOf(len(ids)) || d.M() != mOf(len(ids)) {
		bad(fmt.Sprintf("N/F/M = %d/%d/%d for %d validators", d.N(), d.F(), d.M(), len(ids)))
	}
	if want := primaryOf(d.BlockIndex, 0, len(ids)); int(d.PrimaryIndex) != want {
		bad(fmt.Sprintf("PrimaryIndex=%d, expected %d", d.PrimaryIndex, want))
	}
	for name, t := range map[string][]dbft.ConsensusPayload[vnet.H]{"PreparationPayloads": d.PreparationPayloads, "PreCommitPayloads": d.PreCommitPayloads,
		"CommitPayloads": d.CommitPayloads, "ChangeViewPayloads": d.ChangeViewPayloads, "LastChangeViewPayloads": d.LastChangeViewPayloads} {
		if len(t) != len(ids) {
			bad(fmt.Sprintf("%s has length %d, N=%d", name, len(t), len(ids)))
		}
		if !allNil(t) {
			bad(name + " retains payloads")
		}
	}
	if len(d.LastSeenMessage) != len(ids) {
		bad("LastSeenMessage has the wrong length")
	}
	for i, hv := range d.LastSeenMessage {
		if hv != nil && i != d.MyIndex {
			bad(fmt.Sprintf("LastSeenMessage[%d] retained", i))
		}
	}
	if len(d.Transactions) != 0 || len(d.TransactionHashes) != 0 || len(d.MissingTransactions) != 0 {
		bad("transaction state retained")
	}
	if d.Header() != nil || d.PreHeader() != nil || d.PreBlock() != nil {
		bad("block objects retained")
	}
	f := d.VerifFlags()
	if f.Recovering {
		bad("the recovery-in-progress flag of an earlier call is still set (it changes the timers of the new height)")
	}
	if f.BlockProcessed || f.PreBlockProcessed || f.TxSubscriptionOn {
		bad(fmt.Sprintf("flags retained: %+v", f))
	}
	wantT, wantMax := n.BlockTimes()
	if f.TimePerBlock != wantT {
		bad(fmt.Sprintf("block time not taken afresh: %s, the callback says %s", f.TimePerBlock, wantT))
	}
	if c.Cfg.MaxTPB > 0 && f.MaxTimePerBlock != wantMax {
		bad(fmt.Sprintf("maximum block time not taken afresh: %s, the callback says %s", f.MaxTimePerBlock, wantMax))
	}
	if c.Cfg.TimeSchedule != nil {
		m.inc("reinitialisations-with-scheduled-block-time")
	}
	if f.LastBlockTimestamp != n.TipTs() {
		bad(fmt.Sprintf("previous block timestamp %d, ledger tip has %d", f.LastBlockTimestamp, n.TipTs()))
	}
}

// auditAfterReset checks what is left when Reset/Start returns (cached
// payloads of the new height have been replayed by then).
func (m *Once) auditAfterReset(c *vnet.Cluster, n *vnet.Node) {
	d := n.D
	h := d.BlockIndex
	for name, t := range map[string][]dbft.ConsensusPayload[vnet.H]{"PreparationPayloads": d.PreparationPayloads, "PreCommitPayloads": d.PreCommitPayloads,
		"CommitPayloads": d.CommitPayloads, "ChangeViewPayloads": d.ChangeViewPayloads, "LastChangeViewPayloads": d.LastChangeViewPayloads} {
		for i, p := range t {
			if q := payloadOf(p); q != nil && q.Hgt != h {
				m.fail(c, "foreign-height-payload", "n%d after (re)initialisation at height %d: %s[%d] holds [%s]", n.ID, h, name, i, q.Short())
			}
		}
	}
	for ch, boxes := range d.VerifCache() {
		cnt := 0
		for _, b := range boxes {
			cnt += len(b)
		}
		switch {
		case ch < h:
			m.fail(c, "stale-cache-retained", "n%d after (re)initialisation at height %d still caches %d payload(s) of height %d", n.ID, h, cnt, ch)
		case ch == h && !d.BlockSent():
			for _, b := range boxes {
				for _, p := range b {
					if q := payloadOf(p); q != nil && q.View <= d.ViewNumber {
						m.fail(c, "cached-payload-not-replayed", "n%d after (re)initialisation at (%d,%d) still caches [%s]", n.ID, h, d.ViewNumber, q.Short())
					}
				}
			}
		}
	}
	m.inc("returns-from-reinitialisation-audited")
}

// ------------------------------------------------------------------ C11 (A)

// Probe describes one inadmissible or repeated input injected into a node.
type Probe struct {
	Class string
	Do    func()
	// allowed effects
	AllowRecoveryReply bool
	// DupCV is set for a duplicate of a stored ChangeView payload
	DupCV *vnet.Payload
}

// Hygiene is the C11 no-effect monitor. The check injects probes through
// Inject; the monitor compares whole-state fingerprints around the call and
// watches sends and timer calls during it.
type Hygiene struct {
	Base
	active *vnet.Node
	sends  []*vnet.Payload
	timer  int
}

func (m *Hygiene) Event(c *vnet.Cluster, e *vnet.Event) {
	if e.Node < 0 {
		return
	}
	n := c.Nodes[e.Node]
	// delivered payload objects are never mutated by the library
	if e.Kind == vnet.KAPICall && e.API == "OnReceive" && e.P != nil {
		e.Hs = []vnet.H{e.P.Hash()}
	}
	if e.Kind == vnet.KAPIRet && e.API == "OnReceive" && e.P != nil {
		for i := len(c.Trace) - 2; i >= 0; i-- {
			ce := c.Trace[i]
			if ce.Node == e.Node && ce.Kind == vnet.KAPICall && ce.Depth == 0 {
				if len(ce.Hs) == 1 && ce.Hs[0] != e.P.Hash() {
					m.fail(c, "payload-mutated", "n%d: the library changed a received payload object [%s]", n.ID, e.P.Short())
				}
				m.inc("delivered-payloads-checked-for-mutation")
				break
			}
		}
	}
	if m.active == nil || n != m.active {
		return
	}
	switch e.Kind {
	case vnet.KSend:
		m.sends = append(m.sends, e.P)
	case vnet.KTimerReset, vnet.KTimerExtend:
		m.timer++
	}
}

// Inject runs probe p on node n and judges its effect.
func (m *Hygiene) Inject(c *vnet.Cluster, n *vnet.Node, p Probe) {
	before := Fingerprint(n)
	// A stored ChangeView whose re-delivery finds M requests for its view already in the
	// table (collected while only higher views were being counted) completes that quorum:
	// recorded finding, see KNOWN_FINDINGS.txt. Everything else about duplicates is judged
	// as usual.
	latent := false
	if p.DupCV != nil {
		nv := p.DupCV.Body.(*vnet.ChView).NewView
		cnt := 0
		for _, cp := range n.D.ChangeViewPayloads {
			if q := payloadOf(cp); q != nil && q.Body.(*vnet.ChView).NewView >= nv {
				cnt++
			}
		}
		latent = nv > n.D.ViewNumber && cnt >= mOf(len(n.D.Validators)) && !n.D.CommitSent() && !n.D.PreCommitSent()
	}
	m.active, m.sends, m.timer = n, nil, 0
	p.Do()
	m.active = nil
	if n.Dead || n.D == nil {
		return // panic: reported separately
	}
	after := Fingerprint(n)
	m.inc("probes:" + p.Class)
	if latent {
		if before.Core != after.Core {
			m.fail(c, "duplicate-changeview-completes-latent-quorum", "n%d at (%d,%d): re-delivery of stored [%s] made the node change view: M change-view requests for that view were already held but had only been counted for higher views", n.ID, n.D.BlockIndex, n.D.ViewNumber, p.DupCV.Short())
		}
		return
	}
	if before.Core != after.Core {
		m.fail(c, "inadmissible-input-changed-state:"+p.Class, "n%d at (%d,%d): %s changed the state: %s", n.ID, n.D.BlockIndex, n.D.ViewNumber, p.Class, firstDiff(before.Core, after.Core))
	}
	if before.Cache != after.Cache {
		m.fail(c, "inadmissible-input-cached:"+p.Class, "n%d: %s changed the future-message cache", n.ID, p.Class)
	}
	if before.Timer != after.Timer || m.timer > 0 {
		m.fail(c, "inadmissible-input-touched-timer:"+p.Class, "n%d: %s touched the timer (%s -> %s, %d timer calls)", n.ID, p.Class, before.Timer, after.Timer, m.timer)
	}
	for _, s := range m.sends {
		if p.AllowRecoveryReply && s.T == dbft.RecoveryMessageType {
			m.inc("recovery-replies-to-duplicates")
			continue
		}
		m.fail(c, "inadmissible-input-caused-broadcast:"+p.Class, "n%d: %s caused broadcast [%s]", n.ID, p.Class, s.Short())
	}
}
