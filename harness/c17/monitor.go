// Package c17 is the offline log monitor of property C17: it parses the zap
// development log (stderr) of one run of internal/simulation and judges the
// run against the oracle "fault-free nodes decide height after height at
// roughly the block interval, all on the same blocks, for as long as the
// simulation runs".
package c17

import (
	"bufio"
	"encoding/json"
	"fmt"
	"io"
	"sort"
	"strings"
	"time"
)

// BlockTime is the block interval hard-wired in internal/consensus.New.
const BlockTime = 5 * time.Second

const tsLayout = "2006-01-02T15:04:05.000Z0700"

// Approval is one "approving block" log line.
type Approval struct {
	At     time.Time `json:"-"`
	OffMs  int64     `json:"off_ms"` // offset from the first log line of the run
	Height uint32    `json:"height"`
	Hash   string    `json:"hash"`
	Prev   string    `json:"prev,omitempty"`
}

// RaceReport is one deduplicated `WARNING: DATA RACE` block.
type RaceReport struct {
	Key   string `json:"key"`   // top function pair
	Count int    `json:"count"` // how many reports had this key
	First string `json:"first"` // text of the first report
}

// Log is what the monitor extracted from one run.
type Log struct {
	Entries     int
	First, Last time.Time              // first/last log line timestamps
	Cancelled   time.Time              // earliest "context cancelled" line (zero if none)
	NCancelled  int                    // number of nodes that logged "context cancelled"
	Approvals   map[int][]Approval     // node id -> approvals in log order
	Index       map[int]int            // node id -> validator index (-1 watch-only) from "initializing dbft"
	Sends       map[int]map[string]int // node id -> sending-message kind -> count
	ViewChanges int                    // "changing dbft view" lines
	Rejected    int                    // "invalid PrepareRequest/PrepareResponse/Commit" lines
	ChanFull    int                    // "can't broadcast message: channel is full"
	Crash       string                 // first panic / fatal line, if any
	Races       []RaceReport
	RaceTotal   int
}

type fields struct {
	ID     *int    `json:"id"`
	Height *uint32 `json:"height"`
	Hash   string  `json:"hash"`
	Prev   string  `json:"prev"`
	Index  *int    `json:"index"`
}

func isEntryStart(l string) bool {
	// 2026-09-24T05:04:28.353Z\tINFO\t...
	return len(l) > 24 && l[4] == '-' && l[7] == '-' && l[10] == 'T' && l[13] == ':' && l[16] == ':' &&
		l[0] >= '0' && l[0] <= '9' && strings.IndexByte(l, '\t') > 0
}

var sendMsgs = map[string]bool{
	"sending PrepareRequest":  true,
	"sending PrepareResponse": true,
	"sending PreCommit":       true,
	"sending Commit":          true,
	"request change view":     true,
	"broadcasting message":    true,
}

// Parse reads the captured stderr of one simulation run.
func Parse(rd io.Reader) (*Log, error) {
	lg := &Log{Approvals: map[int][]Approval{}, Index: map[int]int{}, Sends: map[int]map[string]int{}}
	sc := bufio.NewScanner(rd)
	sc.Buffer(make([]byte, 0, 1<<20), 16<<20)
	var (
		inRace  bool
		race    []string
		raceMap = map[string]*RaceReport{}
		raceOrd []string
	)
	flushRace := func() {
		if len(race) == 0 {
			return
		}
		key := raceKey(race)
		lg.RaceTotal++
		if rr, ok := raceMap[key]; ok {
			rr.Count++
		} else {
			raceMap[key] = &RaceReport{Key: key, Count: 1, First: strings.Join(race, "\n")}
			raceOrd = append(raceOrd, key)
		}
		race = nil
	}
	for sc.Scan() {
		l := sc.Text()
		if strings.HasPrefix(l, "WARNING: DATA RACE") {
			flushRace()
			inRace = true
			race = append(race, l)
			continue
		}
		if inRace {
			if strings.HasPrefix(l, "==================") {
				flushRace()
				inRace = false
				continue
			}
			if !isEntryStart(l) { // zap lines of other goroutines may interleave
				race = append(race, l)
				continue
			}
		}
		if !isEntryStart(l) {
			if lg.Crash == "" && (strings.HasPrefix(l, "panic:") || strings.HasPrefix(l, "fatal error:")) {
				lg.Crash = l
			}
			continue
		}
		parts := strings.SplitN(l, "\t", 5)
		if len(parts) < 4 {
			continue
		}
		ts, err := time.Parse(tsLayout, parts[0])
		if err != nil {
			continue
		}
		lg.Entries++
		if lg.First.IsZero() {
			lg.First = ts
		}
		if ts.After(lg.Last) {
			lg.Last = ts
		}
		level, msg := parts[1], parts[3]
		var f fields
		if len(parts) == 5 && strings.HasPrefix(parts[4], "{") {
			_ = json.Unmarshal([]byte(parts[4]), &f)
		}
		if (level == "FATAL" || level == "PANIC" || level == "DPANIC") && lg.Crash == "" {
			lg.Crash = level + ": " + msg
		}
		switch {
		case msg == "approving block":
			if f.ID == nil || f.Height == nil {
				return nil, fmt.Errorf("unparsable approval line: %q", l)
			}
			lg.Approvals[*f.ID] = append(lg.Approvals[*f.ID], Approval{
				At: ts, OffMs: ts.Sub(lg.First).Milliseconds(), Height: *f.Height, Hash: f.Hash, Prev: f.Prev,
			})
		case msg == "initializing dbft":
			if f.ID != nil && f.Index != nil {
				if old, ok := lg.Index[*f.ID]; !ok || old < 0 {
					lg.Index[*f.ID] = *f.Index
				}
			}
		case msg == "changing dbft view":
			lg.ViewChanges++
		case msg == "context cancelled":
			lg.NCancelled++
			if lg.Cancelled.IsZero() || ts.Before(lg.Cancelled) {
				lg.Cancelled = ts
			}
		case strings.HasPrefix(msg, "invalid P") || msg == "invalid Commit":
			lg.Rejected++
		case strings.HasPrefix(msg, "can't broadcast message"):
			lg.ChanFull++
		case sendMsgs[msg]:
			if f.ID != nil {
				m := lg.Sends[*f.ID]
				if m == nil {
					m = map[string]int{}
					lg.Sends[*f.ID] = m
				}
				m[msg]++
			}
		}
	}
	flushRace()
	for _, k := range raceOrd {
		lg.Races = append(lg.Races, *raceMap[k])
	}
	return lg, sc.Err()
}

// raceKey is the pair of top frames of the two conflicting accesses.
func raceKey(block []string) string {
	var tops []string
	for i, l := range block {
		t := strings.TrimSpace(l)
		isAcc := (strings.HasPrefix(t, "Read at ") || strings.HasPrefix(t, "Write at ") ||
			strings.HasPrefix(t, "Previous read at ") || strings.HasPrefix(t, "Previous write at ") ||
			strings.HasPrefix(t, "Atomic read at ") || strings.HasPrefix(t, "Atomic write at ") ||
			strings.HasPrefix(t, "Previous atomic read at ") || strings.HasPrefix(t, "Previous atomic write at "))
		if !isAcc {
			continue
		}
		for j := i + 1; j < len(block); j++ {
			fn := strings.TrimSpace(block[j])
			if fn == "" || isEntryStart(block[j]) {
				continue
			}
			// keep receiver types like main.(*simNode).ProcessBlock intact: cut the argument list only
			if p := strings.LastIndex(fn, "("); p > 0 && strings.HasSuffix(fn, ")") {
				fn = fn[:p]
			}
			tops = append(tops, fn)
			break
		}
		if len(tops) == 2 {
			break
		}
	}
	if len(tops) == 0 {
		return "unparsed"
	}
	sort.Strings(tops)
	return strings.Join(tops, "|")
}

// Spec describes how the judged run was started.
type Spec struct {
	Count    int           `json:"count"`
	Watchers int           `json:"watchers"`
	Blocked  int           `json:"blocked"` // validator index, -1 = none
	TxBlock  int           `json:"txblock"`
	TxCount  int           `json:"txcount"`
	Duration time.Duration `json:"duration_ns"`
	Race     bool          `json:"race"`
	MaxProcs int           `json:"gomaxprocs"`
}

// Flags renders the command line flags of the run.
func (s Spec) Flags() string {
	f := fmt.Sprintf("-count %d -watchers %d", s.Count, s.Watchers)
	if s.Blocked >= 0 {
		f += fmt.Sprintf(" -blocked %d", s.Blocked)
	}
	return f + fmt.Sprintf(" -txblock %d -txcount %d -duration %s", s.TxBlock, s.TxCount, s.Duration)
}

// Finding is one oracle failure of a run.
type Finding struct {
	Sig  string
	What string
	// Late marks findings that only say "too little / too late": these are
	// the ones that a starved machine can produce and that are downgraded
	// to inconclusive when starvation was measured during the run.
	Late bool
}

// Summary is the per-run digest stored in samples and witnesses.
type Summary struct {
	Flags       string              `json:"flags"`
	Race        bool                `json:"race"`
	MaxProcs    int                 `json:"gomaxprocs"`
	RunMs       int64               `json:"run_ms"` // first log line .. context cancelled
	Heights     map[string][]uint32 `json:"heights_per_node"`
	FirstOffMs  int64               `json:"first_approval_off_ms"`
	LastOffMs   int64               `json:"last_approval_off_ms"`
	MinMax      uint32              `json:"min_max_height_of_required_validators"`
	MaxHeight   uint32              `json:"max_height"`
	Floor       uint32              `json:"height_floor"`
	BlockedNode int                 `json:"blocked_node_id"`
	ViewChanges int                 `json:"view_changes"`
	Rejected    int                 `json:"rejected_payloads"`
	Races       int                 `json:"race_reports"`
}

// Params are the (loose, one-sided) real-time bounds of the oracle.
type Params struct {
	Slack     uint32        // heights subtracted from floor(D/BlockTime)
	MinFloor  uint32        // lower bound of the height floor
	TailWin   time.Duration // an approval must happen within this window before the end of the run
	MinAvgGap time.Duration // average gap between consecutive approvals of a node must not be below this
}

// DefaultParams are the bounds used by the engine.
var DefaultParams = Params{Slack: 2, MinFloor: 2, TailWin: 12 * time.Second, MinAvgGap: 2500 * time.Millisecond}

// Floor returns the minimum height every required validator must reach.
func (p Params) Floor(s Spec) uint32 {
	n := uint32(s.Duration / BlockTime)
	if s.Blocked >= 0 {
		// a rejected primary costs a view change; be content with the minimum
		return p.MinFloor
	}
	if n < p.Slack+p.MinFloor {
		return p.MinFloor
	}
	return n - p.Slack
}

// Check applies the oracle to one parsed run.
func Check(s Spec, lg *Log, p Params) (Summary, []Finding) {
	var fs []Finding
	sum := Summary{Flags: s.Flags(), Race: s.Race, MaxProcs: s.MaxProcs, Heights: map[string][]uint32{},
		BlockedNode: -1, ViewChanges: lg.ViewChanges, Rejected: lg.Rejected, Races: lg.RaceTotal, FirstOffMs: -1, LastOffMs: -1}
	end := lg.Cancelled
	if end.IsZero() {
		end = lg.Last
	}
	sum.RunMs = end.Sub(lg.First).Milliseconds()
	total := s.Count + s.Watchers

	// which node is the blocked validator (flag is a validator index, log ids are node ids)
	if s.Blocked >= 0 {
		for id, idx := range lg.Index {
			if idx == s.Blocked {
				sum.BlockedNode = id
			}
		}
	}

	// (1) agreement
	byHeight := map[uint32]map[string][]int{}
	ids := make([]int, 0, len(lg.Approvals))
	for id := range lg.Approvals {
		ids = append(ids, id)
	}
	sort.Ints(ids)
	for _, id := range ids {
		for _, a := range lg.Approvals[id] {
			if byHeight[a.Height] == nil {
				byHeight[a.Height] = map[string][]int{}
			}
			byHeight[a.Height][a.Hash] = append(byHeight[a.Height][a.Hash], id)
		}
	}
	hs := make([]uint32, 0, len(byHeight))
	for h := range byHeight {
		hs = append(hs, h)
	}
	sort.Slice(hs, func(i, j int) bool { return hs[i] < hs[j] })
	for _, h := range hs {
		if len(byHeight[h]) > 1 {
			fs = append(fs, Finding{Sig: "disagreement", What: fmt.Sprintf("nodes approved different blocks at height %d: %v", h, byHeight[h])})
			break
		}
	}

	// (2) contiguity, per node (a node's ledger height only moves through ProcessBlock)
	for _, id := range ids {
		as := lg.Approvals[id]
		hl := make([]uint32, len(as))
		for i, a := range as {
			hl[i] = a.Height
			if a.Height > sum.MaxHeight {
				sum.MaxHeight = a.Height
			}
			if sum.FirstOffMs < 0 || a.OffMs < sum.FirstOffMs {
				sum.FirstOffMs = a.OffMs
			}
			if a.OffMs > sum.LastOffMs {
				sum.LastOffMs = a.OffMs
			}
		}
		sum.Heights[fmt.Sprint(id)] = hl
		for i, h := range hl {
			if h != uint32(i+1) {
				kind := "gap"
				if i > 0 && h <= hl[i-1] {
					kind = "repeat"
				}
				fs = append(fs, Finding{Sig: "noncontiguous:" + kind,
					What: fmt.Sprintf("node %d approved heights %v: position %d is %d, expected %d", id, clip(hl), i, h, i+1)})
				break
			}
		}
		// every approved block extends the block the same node approved before
		for i := 1; i < len(as); i++ {
			if as[i].Height == as[i-1].Height+1 && as[i].Prev != "" && as[i].Prev != as[i-1].Hash {
				fs = append(fs, Finding{Sig: "broken-chain",
					What: fmt.Sprintf("node %d: block %d has prev %s, but its block %d is %s", id, as[i].Height, as[i].Prev, as[i-1].Height, as[i-1].Hash)})
				break
			}
		}
		if id < 0 || id >= total {
			fs = append(fs, Finding{Sig: "unknown-node", What: fmt.Sprintf("approval by node id %d, but only %d nodes were started", id, total)})
		}
	}

	// (3) progress of every non-blocked validator
	sum.Floor = p.Floor(s)
	first := true
	var stalled, slow, stopped []string
	for id := 0; id < s.Count; id++ {
		if id == sum.BlockedNode {
			continue
		}
		as := lg.Approvals[id]
		var mh uint32
		var last time.Time
		if len(as) > 0 {
			mh = as[len(as)-1].Height
			last = as[len(as)-1].At
		}
		if first || mh < sum.MinMax {
			sum.MinMax = mh
			first = false
		}
		tailOK := len(as) > 0 && !last.Before(end.Add(-p.TailWin))
		d := fmt.Sprintf("node %d: max height %d, last approval %s before the end", id, mh, agoStr(end, last, len(as) > 0))
		switch {
		case !tailOK && mh < sum.Floor:
			stalled = append(stalled, d)
		case !tailOK:
			stopped = append(stopped, d)
		case mh < sum.Floor:
			slow = append(slow, d)
		}
	}
	if len(stalled) > 0 {
		fs = append(fs, Finding{Late: true, Sig: fmt.Sprintf("stalled-after-height-%d", sum.MinMax),
			What: fmt.Sprintf("validators stop deciding: in a %s run (block time %s) %d of %d required validators stay below height %d and approve nothing in the last %s (%s)",
				s.Duration, BlockTime, len(stalled), required(s, sum), sum.Floor, p.TailWin, strings.Join(clipS(stalled), "; "))})
	}
	if len(stopped) > 0 {
		fs = append(fs, Finding{Late: true, Sig: "stopped-extending",
			What: fmt.Sprintf("validators approve nothing in the last %s of a %s run (%s)", p.TailWin, s.Duration, strings.Join(clipS(stopped), "; "))})
	}
	if len(slow) > 0 {
		fs = append(fs, Finding{Late: true, Sig: "too-slow",
			What: fmt.Sprintf("validators stay below height %d in a %s run with block time %s (%s)", sum.Floor, s.Duration, BlockTime, strings.Join(clipS(slow), "; "))})
	}

	// (4) not faster than the configured interval (one-sided, average)
	for _, id := range ids {
		as := lg.Approvals[id]
		if len(as) < 3 {
			continue
		}
		avg := as[len(as)-1].At.Sub(as[0].At) / time.Duration(len(as)-1)
		if avg < p.MinAvgGap {
			fs = append(fs, Finding{Sig: "too-fast",
				What: fmt.Sprintf("node %d approved %d blocks with an average gap of %s, configured block time is %s", id, len(as), avg, BlockTime)})
			break
		}
	}

	// (5) watch-only nodes never send anything
	for id := s.Count; id < total; id++ {
		if m := lg.Sends[id]; len(m) > 0 {
			fs = append(fs, Finding{Sig: "watcher-sent", What: fmt.Sprintf("watch-only node %d sent consensus messages: %v", id, m)})
			break
		}
		if idx, ok := lg.Index[id]; ok && idx >= 0 {
			fs = append(fs, Finding{Sig: "watcher-is-validator", What: fmt.Sprintf("watch-only node %d got validator index %d", id, idx)})
			break
		}
	}

	// (6) the -count validators are exactly the validator list: distinct indices 0..count-1
	seenIdx := map[int]int{}
	for id := 0; id < s.Count; id++ {
		idx, ok := lg.Index[id]
		if !ok {
			continue
		}
		if idx < 0 || idx >= s.Count {
			fs = append(fs, Finding{Sig: "validator-not-in-list", What: fmt.Sprintf("node %d of the %d validators runs with validator index %d", id, s.Count, idx)})
			break
		}
		if other, dup := seenIdx[idx]; dup {
			fs = append(fs, Finding{Sig: "validator-index-shared", What: fmt.Sprintf("nodes %d and %d both run with validator index %d", other, id, idx)})
			break
		}
		seenIdx[idx] = id
	}

	// race detector
	for _, r := range lg.Races {
		fs = append(fs, Finding{Sig: "data-race:" + r.Key, What: fmt.Sprintf("race detector reported a data race (%d reports with these top frames)", r.Count)})
	}
	return sum, fs
}

func required(s Spec, sum Summary) int {
	if sum.BlockedNode >= 0 && sum.BlockedNode < s.Count {
		return s.Count - 1
	}
	return s.Count
}

func agoStr(end, last time.Time, ok bool) string {
	if !ok {
		return "never"
	}
	return end.Sub(last).Round(time.Millisecond).String()
}

func clip(h []uint32) []uint32 {
	if len(h) > 24 {
		return h[:24]
	}
	return h
}

func clipS(s []string) []string {
	if len(s) > 4 {
		return append(append([]string{}, s[:4]...), fmt.Sprintf("... %d more", len(s)-4))
	}
	return s
}
