package c17

import (
	"fmt"
	"strings"
	"testing"
	"time"
)

// synthetic logs in the exact format of the zap development encoder; they
// validate the oracles that no mutant of the simulation provokes cheaply.

var t0 = time.Date(2026, 9, 24, 5, 0, 0, 0, time.UTC)

func line(off time.Duration, level, msg, js string) string {
	return fmt.Sprintf("%s\t%s\tdbft/check.go:130\t%s\t%s\n", t0.Add(off).Format(tsLayout), level, msg, js)
}

func appr(off time.Duration, id int, h uint32, hash string) string {
	return line(off, "INFO", "approving block", fmt.Sprintf(`{"id": %d, "height": %d, "hash": "%s", "tx_count": 1, "prev": "aa%02d"}`, id, h, hash, h-1))
}

// good builds a fault-free log: n nodes (count validators), one block every gap.
func good(count, watchers int, d, gap time.Duration) *strings.Builder {
	b := &strings.Builder{}
	for id := 0; id < count+watchers; id++ {
		idx := id
		if id >= count {
			idx = -1
		}
		b.WriteString(line(0, "INFO", "initializing dbft", fmt.Sprintf(`{"id": %d, "height": 1, "view": 0, "index": %d, "role": "Backup"}`, id, idx)))
	}
	h := uint32(1)
	for off := time.Millisecond; off < d; off += gap {
		for id := 0; id < count+watchers; id++ {
			b.WriteString(appr(off, id, h, fmt.Sprintf("aa%02d", h)))
		}
		// a WARN entry with a stack trace (continuation lines) in between
		b.WriteString(line(off, "WARN", "invalid Commit", `{"id": 0, "from": 3, "error": "x"}`))
		b.WriteString("github.com/nspcc-dev/dbft.(*DBFT[...]).onCommit\n\t/repo/dbft.go:624\n")
		h++
	}
	for id := 0; id < count+watchers; id++ {
		b.WriteString(line(d, "INFO", "context cancelled", fmt.Sprintf(`{"id": %d}`, id)))
	}
	return b
}

func sigs(t *testing.T, s Spec, log string) []string {
	t.Helper()
	lg, err := Parse(strings.NewReader(log))
	if err != nil {
		t.Fatal(err)
	}
	_, fs := Check(s, lg, DefaultParams)
	var out []string
	for _, f := range fs {
		out = append(out, f.Sig)
	}
	return out
}

func has(ss []string, pfx string) bool {
	for _, s := range ss {
		if strings.HasPrefix(s, pfx) {
			return true
		}
	}
	return false
}

func TestOracles(t *testing.T) {
	spec := Spec{Count: 4, Watchers: 1, Blocked: -1, TxBlock: 1, TxCount: 2000, Duration: 23 * time.Second}
	base := good(4, 1, 23*time.Second, 5*time.Second).String()
	if ss := sigs(t, spec, base); len(ss) != 0 {
		t.Fatalf("fault-free log flagged: %v", ss)
	}
	lg, _ := Parse(strings.NewReader(base))
	if len(lg.Approvals) != 5 || len(lg.Approvals[4]) != 5 || lg.Rejected != 5 || lg.NCancelled != 5 || lg.Index[4] != -1 || lg.Index[3] != 3 {
		t.Fatalf("parse: %+v", lg)
	}
	cases := []struct {
		name, sig string
		mut       func(string) string
	}{
		{"disagreement", "disagreement", func(s string) string {
			return strings.Replace(s, `"id": 2, "height": 3, "hash": "aa03"`, `"id": 2, "height": 3, "hash": "bb03"`, 1)
		}},
		{"gap", "noncontiguous:gap", func(s string) string {
			return strings.Replace(s, `"id": 1, "height": 2, "hash": "aa02"`, `"id": 1, "height": 9, "hash": "aa09"`, 1)
		}},
		{"repeat", "noncontiguous:repeat", func(s string) string {
			return strings.Replace(s, `"id": 4, "height": 3, "hash": "aa03"`, `"id": 4, "height": 2, "hash": "aa02"`, 1)
		}},
		{"broken chain", "broken-chain", func(s string) string {
			return strings.Replace(s, `"id": 3, "height": 4, "hash": "aa04", "tx_count": 1, "prev": "aa03"`, `"id": 3, "height": 4, "hash": "aa04", "tx_count": 1, "prev": "cc03"`, 1)
		}},
		{"watcher sends", "watcher-sent", func(s string) string {
			return s + line(time.Second, "INFO", "sending Commit", `{"id": 4}`)
		}},
		{"race", "data-race:main.(*simNode).Broadcast|main.(*simNode).ProcessBlock", func(s string) string {
			return s + "==================\nWARNING: DATA RACE\nRead at 0x00c1 by goroutine 16:\n  main.(*simNode).Broadcast()\n      /x/main.go:176 +0xc9\n\n" +
				"Previous write at 0x00c1 by goroutine 20:\n  main.(*simNode).ProcessBlock()\n      /x/main.go:201 +0x269\n==================\n"
		}},
	}
	for _, c := range cases {
		if ss := sigs(t, spec, c.mut(base)); !has(ss, c.sig) {
			t.Errorf("%s: want %s, got %v", c.name, c.sig, ss)
		}
	}
	// spinning out a block every 10 ms
	if ss := sigs(t, spec, good(4, 1, 23*time.Second, 10*time.Millisecond).String()); !has(ss, "too-fast") {
		t.Errorf("too-fast not flagged: %v", ss)
	}
	// stops after two blocks
	two := good(4, 1, 9*time.Second, 5*time.Second).String()
	two = strings.ReplaceAll(two, t0.Add(9*time.Second).Format(tsLayout), t0.Add(23*time.Second).Format(tsLayout))
	if ss := sigs(t, spec, two); !has(ss, "stopped-extending") {
		t.Errorf("stop after 2 blocks not flagged: %v", ss)
	}
	// one block only
	one := good(4, 1, 4*time.Second, 5*time.Second).String()
	one = strings.ReplaceAll(one, t0.Add(4*time.Second).Format(tsLayout), t0.Add(23*time.Second).Format(tsLayout))
	if ss := sigs(t, spec, one); !has(ss, "stalled-after-height-1") {
		t.Errorf("stall not flagged: %v", ss)
	}
	// slow but alive: a block every 11 s
	if ss := sigs(t, spec, good(4, 1, 23*time.Second, 11*time.Second).String()); len(ss) != 0 {
		// heights 1,2,3 at 0,11,22 s: floor 2 reached, last approval 1 s before the end
		t.Errorf("slow-but-alive flagged: %v", ss)
	}
}
