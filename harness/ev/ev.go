// Package ev is the common verdict/evidence layer of the verification harness.
//
// A check creates one Run, feeds it with what its monitors observed
// (evaluations, distinct non-trivial cases, samples, violations) and calls
// Finish, which writes evidence/<id>.json, prints VIOLATION / KNOWN-FINDING /
// INCONCLUSIVE lines and exits with 0 (held), 1 (violated) or 2 (inconclusive).
package ev

import (
	"bufio"
	"encoding/json"
	"fmt"
	"os"
	"path/filepath"
	"sort"
	"strconv"
	"strings"
	"sync"
	"time"
)

// Run accumulates what one check observed.
type Run struct {
	Prop  string
	Tier  string
	Seed  int64
	Level string

	mu           sync.Mutex
	start        time.Time
	evaluations  int64
	distinct     map[string]struct{}
	rule         string
	samples      []any
	extra        map[string]any
	counters     map[string]int64
	assumptions  []string
	violations   []violation
	knownHits    map[string]int64
	knownWhat    map[string]string
	inconclusive []string
	known        map[string]string // sig -> what (for this property)
	exhaustive   bool
	maxSamples   int
	maxViol      int
	noFloors     bool
}

type violation struct {
	Sig    string
	What   string
	Replay string
}

// Dir returns the /verif directory (VERIF_DIR, default /verif).
func Dir() string {
	if d := os.Getenv("VERIF_DIR"); d != "" {
		return d
	}
	return "/verif"
}

// Out returns the directory evidence/ and replays/ are written under (VERIF_OUT,
// default Dir()); validation runs against mutated trees write elsewhere.
func Out() string {
	if d := os.Getenv("VERIF_OUT"); d != "" {
		return d
	}
	return Dir()
}

// Tree returns the dbft source tree under verification (DBFT_TREE, default /repo).
func Tree() string {
	if d := os.Getenv("DBFT_TREE"); d != "" {
		return d
	}
	return "/repo"
}

// Work returns a per-process scratch directory outside /repo and /verif.
func Work() string {
	if d := os.Getenv("VERIF_RUNDIR"); d != "" {
		_ = os.MkdirAll(d, 0o755)
		return d
	}
	base := os.Getenv("VERIF_WORK")
	if base == "" {
		base = "/var/tmp/verif-work"
	}
	d := filepath.Join(base, "p"+strconv.Itoa(os.Getpid()))
	_ = os.MkdirAll(d, 0o755)
	return d
}

// New creates a Run for property prop. Tier and seed come from VERIF_TIER and
// VERIF_SEED unless overridden by the caller afterwards.
func New(prop string) *Run {
	r := &Run{
		Prop:       prop,
		Tier:       "quick",
		Seed:       1,
		Level:      "exploration",
		start:      time.Now(),
		distinct:   map[string]struct{}{},
		extra:      map[string]any{},
		counters:   map[string]int64{},
		knownHits:  map[string]int64{},
		knownWhat:  map[string]string{},
		known:      map[string]string{},
		maxSamples: 3,
		maxViol:    20,
	}
	if t := os.Getenv("VERIF_TIER"); t == "quick" || t == "thorough" {
		r.Tier = t
	}
	if s := os.Getenv("VERIF_SEED"); s != "" {
		if v, err := strconv.ParseInt(s, 10, 64); err == nil {
			r.Seed = v
		}
	}
	r.loadKnown()
	return r
}

func (r *Run) loadKnown() {
	f, err := os.Open(filepath.Join(Dir(), "KNOWN_FINDINGS.txt"))
	if err != nil {
		return
	}
	defer f.Close()
	sc := bufio.NewScanner(f)
	for sc.Scan() {
		line := strings.TrimSpace(sc.Text())
		if !strings.HasPrefix(line, "known:") {
			continue // "fixed:" entries and comments suppress nothing
		}
		fields := strings.Fields(strings.TrimPrefix(line, "known:"))
		var prop, sig string
		var rest []string
		for _, f := range fields {
			switch {
			case strings.HasPrefix(f, "property=") && prop == "":
				prop = strings.TrimPrefix(f, "property=")
			case strings.HasPrefix(f, "sig=") && sig == "":
				sig = strings.TrimPrefix(f, "sig=")
			default:
				rest = append(rest, f)
			}
		}
		if prop == r.Prop && sig != "" {
			r.known[sig] = strings.Join(rest, " ")
		}
	}
}

// Thorough tells whether the thorough tier was requested.
func (r *Run) Thorough() bool { return r.Tier == "thorough" }

// Pick returns q for the quick tier and t for the thorough one.
func (r *Run) Pick(q, t int) int {
	n := q
	if r.Thorough() {
		n = t
	}
	// VERIF_SCALE (validation of the monitors against mutated scratch trees only, never set by a
	// registered command): run a fraction of the tier's cases; coverage floors are off then.
	if sc := os.Getenv("VERIF_SCALE"); sc != "" {
		var f float64
		if _, err := fmt.Sscan(sc, &f); err == nil && f > 0 && f < 1 {
			r.noFloors = true
			if n = int(float64(n) * f); n < 1 {
				n = 1
			}
		}
	}
	return n
}

// SetRule records how cases are generated and what makes one non-trivial.
func (r *Run) SetRule(s string) { r.mu.Lock(); r.rule = s; r.mu.Unlock() }

// SetExhaustive marks the run as a complete enumeration of a finite space.
func (r *Run) SetExhaustive(b bool) { r.mu.Lock(); r.exhaustive = b; r.mu.Unlock() }

// Assume records an assumption / trusted-base item.
func (r *Run) Assume(s string) { r.mu.Lock(); r.assumptions = append(r.assumptions, s); r.mu.Unlock() }

// Eval counts n evaluated cases.
func (r *Run) Eval(n int64) { r.mu.Lock(); r.evaluations += n; r.mu.Unlock() }

// Distinct records one non-trivial case under its distinctness key.
func (r *Run) Distinct(key string) {
	r.mu.Lock()
	r.distinct[key] = struct{}{}
	r.mu.Unlock()
}

// Count adds n to a named monitor counter (reported in coverage.counters).
func (r *Run) Count(name string, n int64) { r.mu.Lock(); r.counters[name] += n; r.mu.Unlock() }

// Counter reads a named counter.
func (r *Run) Counter(name string) int64 { r.mu.Lock(); defer r.mu.Unlock(); return r.counters[name] }

// Set stores an extra coverage key.
func (r *Run) Set(key string, v any) { r.mu.Lock(); r.extra[key] = v; r.mu.Unlock() }

// Sample stores an example case (only the first few are kept).
func (r *Run) Sample(v any) {
	r.mu.Lock()
	if len(r.samples) < r.maxSamples {
		r.samples = append(r.samples, v)
	}
	r.mu.Unlock()
}

// WantSample tells whether another sample would still be stored.
func (r *Run) WantSample() bool {
	r.mu.Lock()
	defer r.mu.Unlock()
	return len(r.samples) < r.maxSamples
}

// Inconclusive records a reason why the run cannot give a verdict.
func (r *Run) Inconclusive(reason string) {
	r.mu.Lock()
	r.inconclusive = append(r.inconclusive, reason)
	r.mu.Unlock()
}

// Floor makes the run inconclusive unless counter name reached min.
func (r *Run) Floor(name string, min int64) {
	if r.noFloors {
		return
	}
	if v := r.Counter(name); v < min {
		r.Inconclusive(fmt.Sprintf("coverage floor not met: %s=%d < %d", name, v, min))
	}
}

// DisableFloors turns coverage floors off (single-run replays).
func (r *Run) DisableFloors() { r.noFloors = true }

// Violation reports a violation with structural signature sig. If
// KNOWN_FINDINGS.txt lists property+sig as known it is counted as a known
// finding; otherwise the witness is written to replays/ and the run fails.
func (r *Run) Violation(sig, what string, witness any) {
	r.mu.Lock()
	defer r.mu.Unlock()
	if _, ok := r.known[sig]; ok {
		r.knownHits[sig]++
		if _, seen := r.knownWhat[sig]; !seen {
			r.knownWhat[sig] = what
		}
		return
	}
	if len(r.violations) >= r.maxViol {
		r.counters["violations_not_listed"]++
		return
	}
	dir := filepath.Join(Out(), "replays")
	_ = os.MkdirAll(dir, 0o755)
	path := filepath.Join(dir, fmt.Sprintf("%s-%d-%d.json", r.Prop, r.Seed, len(r.violations)))
	b, err := json.MarshalIndent(map[string]any{
		"property": r.Prop, "signature": sig, "what": what, "tier": r.Tier, "seed": r.Seed, "witness": witness,
	}, "", " ")
	if err != nil {
		b = []byte(fmt.Sprintf("{\"property\":%q,\"signature\":%q,\"what\":%q,\"marshal_error\":%q}", r.Prop, sig, what, err.Error()))
	}
	_ = os.WriteFile(path, b, 0o644)
	r.violations = append(r.violations, violation{Sig: sig, What: what, Replay: path})
}

// Violations returns the number of (unlisted) violations so far.
func (r *Run) Violations() int { r.mu.Lock(); defer r.mu.Unlock(); return len(r.violations) }

// KnownHits returns how many times known signature sig was observed.
func (r *Run) KnownHits(sig string) int64 { r.mu.Lock(); defer r.mu.Unlock(); return r.knownHits[sig] }

// Finish writes the evidence file, prints the verdict lines and exits.
func (r *Run) Finish() {
	os.Exit(r.FinishNoExit())
}

// FinishNoExit is Finish without os.Exit; it returns the exit code.
func (r *Run) FinishNoExit() int {
	r.mu.Lock()
	defer r.mu.Unlock()
	cov := map[string]any{}
	for k, v := range r.extra {
		cov[k] = v
	}
	cov["evaluations"] = r.evaluations
	cov["distinct_nontrivial"] = len(r.distinct)
	cov["rule"] = r.rule
	if len(r.samples) == 0 {
		cov["samples"] = []any{}
	} else {
		cov["samples"] = r.samples
	}
	if r.exhaustive {
		cov["exhaustive"] = true
	}
	if len(r.counters) > 0 {
		cov["counters"] = r.counters
	}
	if len(r.knownHits) > 0 {
		cov["known_finding_hits"] = r.knownHits
	}
	verdict := "held"
	code := 0
	if len(r.inconclusive) > 0 {
		verdict = "inconclusive"
		code = 2
		cov["inconclusive_reasons"] = r.inconclusive
	}
	if len(r.violations) > 0 {
		verdict = "violated"
		code = 1
		var vs []map[string]string
		for _, v := range r.violations {
			vs = append(vs, map[string]string{"signature": v.Sig, "what": v.What, "replay": v.Replay})
		}
		cov["violation_list"] = vs
	}
	cov["verdict"] = verdict
	evd := map[string]any{
		"property_id": r.Prop,
		"tier":        r.Tier,
		"seed":        r.Seed,
		"level":       r.Level,
		"coverage":    cov,
		"assumptions": append([]string{}, r.assumptions...),
		"wall_s":      float64(time.Since(r.start).Milliseconds()) / 1000,
		"violations":  len(r.violations),
	}
	b, _ := json.MarshalIndent(evd, "", " ")
	dir := filepath.Join(Out(), "evidence")
	_ = os.MkdirAll(dir, 0o755)
	if err := os.WriteFile(filepath.Join(dir, r.Prop+".json"), append(b, '\n'), 0o644); err != nil {
		fmt.Printf("INCONCLUSIVE property=%s reason=cannot write evidence: %v\n", r.Prop, err)
		if code == 0 {
			code = 2
		}
	}
	sigs := make([]string, 0, len(r.knownHits))
	for s := range r.knownHits {
		sigs = append(sigs, s)
	}
	sort.Strings(sigs)
	for _, s := range sigs {
		fmt.Printf("KNOWN-FINDING: property=%s sig=%s %s (observed %d times: %s)\n", r.Prop, s, r.known[s], r.knownHits[s], r.knownWhat[s])
	}
	for _, v := range r.violations {
		fmt.Printf("VIOLATION property=%s replay=%s sig=%s %s\n", r.Prop, v.Replay, v.Sig, v.What)
	}
	if len(r.violations) == 0 {
		for _, s := range r.inconclusive {
			fmt.Printf("INCONCLUSIVE property=%s reason=%s\n", r.Prop, s)
		}
	}
	fmt.Printf("%s: %s tier=%s seed=%d evaluations=%d distinct_nontrivial=%d wall=%.1fs\n",
		r.Prop, verdict, r.Tier, r.Seed, r.evaluations, len(r.distinct), time.Since(r.start).Seconds())
	return code
}
