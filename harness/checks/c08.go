package checks

import (
	"github.com/nspcc-dev/dbft/verifh/ev"
	"github.com/nspcc-dev/dbft/verifh/mon"
	"github.com/nspcc-dev/dbft/verifh/vnet"
)

func C08(r *ev.Run) {
	r.SetRule("one case = one fault-free synchronous multi-height run (all validators honest; every due envelope is delivered, in a seeded random order with duplicates, before any timer may expire; N, heights, anti-MEV mode, dynamic block time, latency and block-persistence delay drawn from the seed); non-trivial = some commit/response was delivered before the proposal or some payload before its height/view was entered; distinct = distinct abstract traces")
	r.Assume("latency <= TimePerBlock/50 and block-persistence (Reset) delay <= 1.4 x TimePerBlock (less than the backups' 2 x TimePerBlock timers), so that the premise 'every message is delivered before the next timer expires' holds; runs with non-zero latency or Reset delay do not start at ledger height 0 (see DESIGN.md §5.10)")
	protoCheck(r, []Plan{{"sync-perm", 20000, 400000}, {"long-chain", 30, 1500}}, func() (vnet.Monitor, func() ([]mon.V, map[string]int64)) {
		m := &mon.SyncRun{}
		return m, func() ([]mon.V, map[string]int64) { return m.Viols, m.Cnt }
	}, func(b *Built, cnt map[string]int64) bool {
		return cnt["commits-before-proposal"]+cnt["responses-before-proposal"]+cnt["deliveries-before-height-entered"] > 0
	})
	r.Floor("decisions-checked", 20000)
	r.Floor("commits-before-proposal", 1000)
	r.Floor("responses-before-proposal", 1000)
	r.Floor("deliveries-before-height-entered", 500)
}

func C16(r *ev.Run) {
	r.SetRule("one case = one fault-free synchronous run with the maximum-block-time extension configured (ratio max/min in {1,1.5,2,4,10}; one fifth of the runs with the extension off), transactions appearing at seeded virtual instants (never, before the minimum, during the extended wait), N in 1..7; non-trivial = at least one empty and/or notified proposal gap was evaluated; distinct = distinct abstract traces")
	r.Assume("tolerance of the timing bounds = 2 x maximal one-way latency of the run (the library deliberately shortens timers by half the measured round trip)")
	protoCheck(r, []Plan{{"dyn", 15000, 300000}}, func() (vnet.Monitor, func() ([]mon.V, map[string]int64)) {
		m := mon.NewDynTime()
		return m, func() ([]mon.V, map[string]int64) { return m.Viols, m.Cnt }
	}, func(b *Built, cnt map[string]int64) bool {
		return cnt["empty-proposals-checked"]+cnt["notifications-to-waiting-primary"] > 0
	})
	r.Floor("proposal-gaps-checked", 5000)
	r.Floor("empty-proposals-checked", 500)
	r.Floor("non-empty-proposals-checked", 500)
	r.Floor("notifications-to-waiting-primary", 200)
	r.Floor("subscriptions", 500)
	r.Floor("waiting-primaries-with-transaction-checked", 300)
}
