package checks

import (
	"fmt"

	"github.com/nspcc-dev/dbft/verifh/ev"
	"github.com/nspcc-dev/dbft/verifh/mon"
	"github.com/nspcc-dev/dbft/verifh/vnet"
)

// Plan is a number of runs of one profile per tier.
type Plan struct {
	Profile  string
	Quick    int
	Thorough int
}

// RunPlan executes every run of the plan in parallel. Run indices are global
// over the plan, so `-only i` re-executes exactly one run.
func RunPlan(r *ev.Run, plan []Plan, each func(s Spec)) {
	var specs []Spec
	for _, p := range plan {
		n := r.Pick(p.Quick, p.Thorough)
		for i := 0; i < n; i++ {
			idx := len(specs)
			specs = append(specs, Spec{Profile: p.Profile, Idx: idx, Seed: RunSeed(r, p.Profile, idx)})
		}
	}
	if Only >= 0 {
		if Only < len(specs) {
			each(specs[Only])
		}
		return
	}
	Parallel(len(specs), func(i int) { each(specs[i]) })
}

// Report turns monitor violations of one run into ev violations with a witness.
func Report(r *ev.Run, b *Built, vs []mon.V) {
	for _, v := range vs {
		replay := fmt.Sprintf("VERIF_SEED=%d bin/check %s %s -only %d", r.Seed, r.Prop, r.Tier, b.Spec.Idx)
		if b.Spec.Idx < 0 {
			replay = fmt.Sprintf("VERIF_SEED=%d bin/check %s %s   # scenario %q is one of the scripted/seeded scenarios executed at the start of the check; they are a function of VERIF_SEED", r.Seed, r.Prop, r.Tier, b.Spec.Profile)
		}
		r.Violation(v.Sig, v.What, map[string]any{
			"replay_cmd": replay,
			"spec":       b.Spec,
			"cfg":        CfgSummary(b.C),
			"around":     mon.Around(b.C, v.Seq, 120, 5),
			"explains":   v.Extra,
		})
	}
}

// Account adds the run's monitor counters and scheduler statistics to the evidence.
func Account(r *ev.Run, b *Built, cnt ...map[string]int64) {
	r.Eval(1)
	r.Count("runs:"+b.Spec.Profile, 1)
	r.Count("scheduler-steps", int64(b.C.Steps))
	r.Count("events", int64(len(b.C.Trace)))
	for _, m := range cnt {
		for k, v := range m {
			r.Count(k, v)
		}
	}
	for k, v := range b.C.Stats {
		r.Count("net:"+k, int64(v))
	}
	if b.C.Adv != nil {
		for k, v := range b.C.Adv.Moves {
			r.Count("adv:"+k, int64(v))
		}
	}
	if b.C.Aborted {
		r.Count("runs-aborted", 1)
	}
	PanicsToViolations(r, b.C, b.Spec)
	if len(b.C.Panics) > 0 && r.Prop != "C11" && r.Counter("runs-aborted-by-library-panic") == 1 {
		// a library panic is C11's violation; a run it cut short says nothing about this property
		r.Inconclusive("the library panicked in at least one run (" + b.C.Panics[0].API + ": " + b.C.Panics[0].Value + "); see C11")
	}
}

// SampleRun stores a compact rendering of a run as an evidence sample.
func SampleRun(r *ev.Run, b *Built, note string) {
	if !r.WantSample() {
		return
	}
	var lines []string
	for _, e := range b.C.Trace {
		switch e.Kind {
		case vnet.KSend, vnet.KProcessBlock, vnet.KProcessPreBlock, vnet.KEpoch, vnet.KAdversary, vnet.KRestart, vnet.KNet, vnet.KPanic:
			lines = append(lines, e.String())
		}
		if len(lines) >= 60 {
			lines = append(lines, "...")
			break
		}
	}
	r.Sample(map[string]any{"note": note, "cfg": CfgSummary(b.C), "abstract_trace": mon.AbstractTrace(b.C), "events": lines})
}

func decisions(c *vnet.Cluster) int {
	n := 0
	for _, x := range c.Nodes {
		if x.Role == vnet.Honest {
			n += len(x.Accepted)
		}
	}
	return n
}
