package checks

import (
	"math/rand"
	"time"

	"github.com/nspcc-dev/dbft"
	"github.com/nspcc-dev/dbft/verifh/ev"
	"github.com/nspcc-dev/dbft/verifh/mon"
	"github.com/nspcc-dev/dbft/verifh/vnet"
)

var c15Incs = []uint64{1, 1000000, 1000000000, 7, 999983}

func buildC15(s Spec, mons ...vnet.Monitor) *Built {
	r := rand.New(rand.NewSource(s.Seed*31 + 5))
	cfg := baseConfig(s, r, Opt{Ns: []int{1, 1, 4, 4, 7}, MinH: 3, MaxH: 6, Dyn: 1})
	cfg.TsInc = c15Incs[r.Intn(len(c15Incs))]
	cfg.K = vnet.Knobs{Sync: true, PDup: 0.05, PNewTx: 0.05, NotifyAll: true, SlowNode: -1, ResetDelayNode: -1}
	cfg.TxPerBlock = []int{0, 1, 3, 8, 64}[r.Intn(5)]
	// previous block timestamp: zero, aligned, unaligned, near the clock, ahead of the clock by up to hours
	ep := uint64(cfg.Epoch)
	switch r.Intn(8) {
	case 7:
		// previous block timestamps in the upper half of the uint64 range (further from the clock than an int64 can express)
		cfg.GenesisTs = []uint64{1<<63 - 1000000, 1 << 63, 1<<63 + 3<<60, 1<<64 - 1 - uint64(time.Hour)}[r.Intn(4)]
	case 0:
		cfg.GenesisTs = 0
	case 1:
		cfg.GenesisTs = ep - ep%cfg.TsInc
	case 2:
		cfg.GenesisTs = ep - uint64(r.Intn(1000000))
	case 3:
		cfg.GenesisTs = ep + uint64(r.Intn(int(cfg.TsInc)+1))
	case 4:
		cfg.GenesisTs = ep + uint64(r.Int63n(int64(3*time.Hour)))
	case 5:
		cfg.GenesisTs = ep - ep%cfg.TsInc + cfg.TsInc
	default:
		cfg.GenesisTs = ep - uint64(cfg.TPB)
	}
	if cfg.BaseHeight == 0 {
		cfg.BaseHeight = 1
	}
	if r.Intn(8) == 0 {
		cfg.BaseHeight = 1<<32 - 2 - uint32(cfg.Heights) // heights up to the 32-bit boundary
	}
	cfg.Roles = make([]vnet.Role, cfg.N)
	crashAfterProposal := cfg.N >= 4 && r.Intn(3) == 0
	if cfg.N >= 4 && !crashAfterProposal && r.Intn(2) == 0 {
		// a silent primary at the first height: proposals in views > 0
		cfg.Roles[int((uint64(cfg.BaseHeight)+1)%uint64(cfg.N))] = vnet.Silent
	}
	cfg.MaxClock = time.Duration(cfg.Heights) * 300 * cfg.TPB
	c := vnet.NewCluster(cfg, mons...)
	for i := r.Intn(70); i > 0; i-- {
		c.AddTx(false, 0)
	}
	hooks := &vnet.Hooks{}
	// the local clock steps (back or forth) between events
	jumps := r.Intn(3)
	first := cfg.BaseHeight + 1
	crashed := false
	hooks.BeforeStep = func(c *vnet.Cluster) {
		if crashAfterProposal && !crashed {
			// the first primary crashes right after proposing and its proposal reaches only the
			// primary of the next view: that node proposes in view 1 after having accepted a
			// view-0 proposal as a backup
			next := int((uint64(first) + uint64(cfg.N) - 1) % uint64(cfg.N))
			kept := c.Inflight[:0]
			for _, e := range c.Inflight {
				if e.P.T == dbft.PrepareRequestType && e.P.Hgt == first && e.P.View == 0 {
					crashed = true
					c.Nodes[e.From].Dead = true
					if e.To != next {
						continue
					}
				}
				kept = append(kept, e)
			}
			c.Inflight = kept
		}
		if jumps > 0 && c.Rng.Intn(150) == 0 {
			jumps--
			d := c.Rng.Int63n(int64(4*cfg.TPB)) - int64(3*cfg.TPB)
			c.Cfg.Epoch += d
		}
	}
	return &Built{C: c, Hooks: hooks, Spec: s}
}

func C15(r *ev.Run) {
	r.SetRule("one case = one fault-free synchronous run (N in {1,4,7}, 3-6 heights, optional silent first primary so that views > 0 propose) with a drawn timestamp increment, previous-block timestamp (zero / aligned / unaligned / near / hours ahead of the clock), pool size 0..64 and local clock steps; every proposal of every honest primary is judged at NewPrepareRequest, Broadcast, API return and at the primary's own block construction; non-trivial = at least one proposal judged; distinct = distinct abstract traces x (increment, clock-vs-previous-timestamp class)")
	r.Assume("in the interval prevTs < trunc(clock) < prevTs+increment only strict increase is enforced (the statement is ambiguous there); the value chosen by the code is counted under proposals-clock-in-gap")
	n := r.Pick(6000, 200000)
	var specs []Spec
	for i := 0; i < n; i++ {
		specs = append(specs, Spec{Profile: "proposals", Idx: i, Seed: RunSeed(r, "proposals", i)})
	}
	each := func(s Spec) {
		m := mon.NewPropose()
		b := buildC15(s, m)
		b.Go()
		Report(r, b, m.Viols)
		Account(r, b, m.Cnt)
		if m.Cnt["proposals-checked"] > 0 {
			cls := "behind"
			if m.Cnt["proposals-clock-ahead"] > 0 {
				cls = "ahead"
			}
			if m.Cnt["proposals-clock-in-gap"] > 0 {
				cls += "+gap"
			}
			r.Distinct(mon.AbstractTrace(b.C) + "/" + cls)
			SampleRun(r, b, "proposals")
		}
	}
	if Only >= 0 {
		if Only < len(specs) {
			each(specs[Only])
		}
		return
	}
	// one proposal with more transactions than a 16-bit counter can hold
	{
		m := mon.NewPropose()
		cfg := vnet.Config{Seed: r.Seed, Profile: "huge-pool", N: 1, BaseHeight: 5, Heights: 1, AMEV: -1, TPB: time.Second, TxPerBlock: 70000,
			Epoch: time.Date(2031, 1, 1, 0, 0, 0, 0, time.UTC).UnixNano(), MaxSteps: 100}
		cfg.GenesisTs = uint64(cfg.Epoch) - uint64(cfg.TPB)
		cfg.K = vnet.Knobs{Sync: true, SlowNode: -1, ResetDelayNode: -1}
		cfg.Roles = make([]vnet.Role, 1)
		c := vnet.NewCluster(cfg, m)
		for i := 0; i < 66000; i++ {
			t := c.NewTx(false)
			c.Nodes[0].Pool[t.Hash()] = t
		}
		b := &Built{C: c, Hooks: &vnet.Hooks{}, Spec: Spec{Profile: "huge-pool", Idx: -1, Seed: r.Seed}}
		b.Go()
		Report(r, b, m.Viols)
		Account(r, b, m.Cnt)
		r.Count("proposals-with-more-than-65535-txs", m.Cnt["proposals-checked"])
	}
	Parallel(len(specs), func(i int) { each(specs[i]) })
	r.Floor("proposals-checked", 5000)
	r.Floor("proposals-clock-ahead", 2000)
	r.Floor("proposals-clock-behind", 500)
	r.Floor("proposals-clock-in-gap", 50)
	r.Floor("proposals-in-higher-view", 300)
	r.Floor("proposals-with-several-txs", 2000)
	r.Floor("primary-blocks-checked", 5000)
	r.Floor("primary-handovers-checked", 2000)
	r.Floor("proposals-after-huge-previous-timestamp", 200)
	r.Floor("primary-headers-checked", 5000)
	r.Floor("primary-preheaders-checked", 1000)
	r.Floor("proposals-after-backup-role-in-same-height", 50)
}
