// Package checks wires profiles (workloads), monitors and the evidence layer
// into one check per property.
package checks

import (
	"fmt"
	"math/rand"
	"os"
	"runtime"
	"sort"
	"strings"
	"sync"
	"time"

	"github.com/nspcc-dev/dbft"
	"github.com/nspcc-dev/dbft/verifh/ev"
	"github.com/nspcc-dev/dbft/verifh/mon"
	"github.com/nspcc-dev/dbft/verifh/vnet"
)

// Spec identifies one run of a check: everything random in it derives from Seed.
type Spec struct {
	Profile string
	Idx     int
	Seed    int64
}

// Opt tweaks the configuration a profile draws.
type Opt struct {
	Ns        []int // validator counts to draw from
	AMEVModes []int // 0 off, 1 from genesis, 2 switching on mid-run
	MinH      int
	MaxH      int
	ForceN    int
	Dyn       int // 0 never, 1 random, 2 always: dynamic block time
	NoAdv     bool
	PastEpoch int // 0 random, 1 past, 2 future
}

func pickInt(r *rand.Rand, l []int) int { return l[r.Intn(len(l))] }

var tpbs = []time.Duration{time.Second, 5 * time.Second, 15 * time.Second}

// baseConfig draws the profile-independent part of a configuration.
func baseConfig(s Spec, r *rand.Rand, o Opt) vnet.Config {
	if len(o.Ns) == 0 {
		o.Ns = []int{1, 2, 3, 4, 4, 4, 5, 6, 7, 7, 10}
	}
	if len(o.AMEVModes) == 0 {
		o.AMEVModes = []int{0, 0, 1, 2}
	}
	if o.MinH == 0 {
		o.MinH, o.MaxH = 2, 4
	}
	cfg := vnet.Config{Seed: s.Seed, Profile: s.Profile}
	if os.Getenv("VERIF_TIER") == "thorough" && o.ForceN == 0 {
		// deeper bounds in the thorough tier: larger validator sets and longer chains in a share of the runs
		if r.Intn(8) == 0 {
			o.Ns = []int{13, 16}
		}
		if r.Intn(6) == 0 {
			o.MaxH += 4
		}
	}
	cfg.N = pickInt(r, o.Ns)
	if o.ForceN > 0 {
		cfg.N = o.ForceN
	}
	cfg.Heights = o.MinH + r.Intn(o.MaxH-o.MinH+1)
	switch r.Intn(4) {
	case 0:
		cfg.BaseHeight = 0
	case 1:
		cfg.BaseHeight = uint32(r.Intn(1 << 20))
		if r.Intn(3) == 0 {
			// heights around the 16-, 31- and 32-bit boundaries (the run stays below 2^32-1)
			cfg.BaseHeight = []uint32{1<<16 - 2, 1<<31 - 2, 1<<32 - 40, 1<<24 - 1}[r.Intn(4)] - uint32(r.Intn(3))
		}
	default:
		cfg.BaseHeight = uint32(1 + r.Intn(40))
	}
	switch pickInt(r, o.AMEVModes) {
	case 0:
		cfg.AMEV = -1
	case 1:
		cfg.AMEV = 0
	default:
		cfg.AMEV = int64(cfg.BaseHeight) + int64(2+r.Intn(2))
	}
	cfg.TPB = tpbs[r.Intn(len(tpbs))]
	cfg.TsInc = uint64(time.Millisecond)
	year := 1990 + r.Intn(30)
	if o.PastEpoch == 2 || (o.PastEpoch == 0 && r.Intn(2) == 0) {
		year = 2030 + r.Intn(60)
	}
	cfg.Epoch = time.Date(year, time.Month(1+r.Intn(12)), 1+r.Intn(28), r.Intn(24), r.Intn(60), r.Intn(60), 0, time.UTC).UnixNano()
	cfg.GenesisTs = uint64(cfg.Epoch) - uint64(cfg.TPB)
	cfg.TxPerBlock = r.Intn(5)
	if o.Dyn == 2 || (o.Dyn == 1 && r.Intn(3) == 0) {
		cfg.MaxTPB = cfg.TPB * time.Duration(pickInt(r, []int{2, 3, 4, 8, 20})) / 2
	}
	cfg.MaxSteps = max(6000+1500*cfg.N, 2000*cfg.Heights+80*cfg.N*cfg.N*cfg.Heights)
	cfg.MaxClock = time.Duration(cfg.Heights) * 400 * cfg.TPB
	cfg.K.SlowNode = -1
	cfg.K.ResetDelayNode = -1
	return cfg
}

// Built is a cluster ready to run.
type Built struct {
	C     *vnet.Cluster
	Hooks *vnet.Hooks
	Spec  Spec
}

// Build creates the cluster of a run for the given profile.
func Build(s Spec, mons ...vnet.Monitor) *Built {
	r := rand.New(rand.NewSource(s.Seed*7919 + 17))
	var cfg vnet.Config
	hooks := &vnet.Hooks{}
	adv := false
	rejecting := false
	watchRejects := false
	watchFlips := false
	amnesiaAfterProposal := false
	amnesiaAsync := false
	byzFlips := false
	asyncThenSync := false
	initTx := 0
	switch s.Profile {
	case "sync-perm", "long-chain":
		cfg = baseConfig(s, r, Opt{Ns: []int{1, 2, 3, 4, 4, 5, 6, 7}, MinH: 3, MaxH: 5, Dyn: 1})
		if s.Profile == "long-chain" {
			// one instance per node lives through a long chain: state that accumulates or is reused across
			// heights (round-trip ring buffer, reusable tables, future-message cache, last-block bookkeeping)
			cfg.Heights = 120 + r.Intn(200)
			cfg.MaxSteps = 400 * cfg.Heights * (cfg.N + 1)
			cfg.MaxClock = time.Duration(cfg.Heights) * 400 * max(cfg.TPB, cfg.MaxTPB)
		}
		cfg.K.Sync = true
		cfg.K.PDup = 0.1
		cfg.K.PNewTx = 0.02
		cfg.K.NotifyAll = true // the application honours its subscription at once
		switch r.Intn(3) {
		case 1:
			cfg.LatMin, cfg.LatMax = cfg.TPB/100, cfg.TPB/100
		case 2:
			cfg.LatMin, cfg.LatMax = 0, cfg.TPB/50
		}
		switch r.Intn(3) {
		case 0:
			if cfg.N > 1 {
				cfg.K.SlowNode = r.Intn(cfg.N)
				cfg.K.SlowExtra = cfg.TPB / 4
			}
		case 1:
			// slow block persistence: the application calls Reset late, so traffic of the next height
			// arrives before the height is entered and gets cached. One lagging node that the quorum
			// does not need may lag by more than a block time; if every node is needed (N < 4) all
			// nodes lag a little. Both stay inside the slack between the primary's TimePerBlock
			// and the backups' 2 x TimePerBlock timers.
			if cfg.N >= 4 {
				cfg.K.ResetDelayNode = r.Intn(cfg.N)
				cfg.K.ResetDelayMax = cfg.TPB * 13 / 10
				cfg.LatMin, cfg.LatMax = 0, 0
			} else {
				cfg.K.ResetDelayMax = cfg.TPB * 3 / 10
			}
		}
		if r.Intn(5) == 0 && cfg.N >= 2 {
			// the validator list rotates between heights (same size, other members); nodes outside the
			// list of a height are ordinary full nodes that get finished blocks from the block relay
			cfg.Watchers = 1 + r.Intn(2)
			cfg.K.ObserverSync = true
			total, size, vseed := cfg.N+cfg.Watchers, cfg.N, s.Seed
			cfg.ValSchedule = func(idx uint32) []int {
				rr := rand.New(rand.NewSource(vseed ^ int64(idx)*2654435761))
				return rr.Perm(total)[:size]
			}
			if cfg.K.SlowNode >= 0 || cfg.K.ResetDelayNode >= 0 {
				cfg.K.SlowNode, cfg.K.SlowExtra, cfg.K.ResetDelayNode, cfg.K.ResetDelayMax = -1, 0, -1, 0
			}
		}
		if (cfg.LatMax > 0 || cfg.K.ResetDelayMax > 0 || cfg.K.SlowExtra > 0) && cfg.BaseHeight == 0 {
			cfg.BaseHeight = 1 // see DESIGN: zero-duration timers at the very first height
		}
		initTx = r.Intn(8)
	case "dyn":
		cfg = baseConfig(s, r, Opt{Ns: []int{1, 2, 3, 4, 4, 5, 6, 7}, MinH: 4, MaxH: 6, Dyn: 2})
		if r.Intn(5) == 0 {
			cfg.MaxTPB = 0 // the "extension off" half
			cfg.TrySubscribeAlone = true
		}
		cfg.K.Sync = true
		cfg.K.PDup = 0.05
		cfg.K.NotifyAll = true
		cfg.K.PTxAtPoolRead = []float64{0, 0.1, 0.3}[r.Intn(3)]
		switch r.Intn(3) {
		case 1:
			cfg.LatMin, cfg.LatMax = cfg.TPB/100, cfg.TPB/100
		case 2:
			cfg.LatMin, cfg.LatMax = 0, cfg.TPB/50
		}
		if cfg.BaseHeight == 0 {
			cfg.BaseHeight = 1
		}
		cfg.TxPerBlock = 1 + r.Intn(4)
		initTx = []int{0, 0, 1, 3}[r.Intn(4)]
		if r.Intn(4) == 0 && cfg.N >= 2 {
			// the validator list rotates between heights (same size, other members): a node may become
			// primary of a height whose predecessor it only watched
			cfg.Watchers = 1 + r.Intn(2)
			cfg.K.ObserverSync = true // observers get finished blocks from the block relay, like any full node (DESIGN 5.17)
			total, size, vseed := cfg.N+cfg.Watchers, cfg.N, s.Seed
			cfg.ValSchedule = func(idx uint32) []int {
				rr := rand.New(rand.NewSource(vseed ^ int64(idx)*2654435761))
				return rr.Perm(total)[:size]
			}
		}
	case "async-benign":
		cfg = baseConfig(s, r, Opt{Dyn: 1})
		cfg.K = vnet.Knobs{PDrop: 0.02, PDup: 0.08, PEarlyTimer: 0.01, PStaleTimer: 0.01, PAdvance: 0.02,
			PDelayReset: 0.5, PTimeoutDecided: 0.05, PNewTx: 0.02, PTxMissing: 0.2, PSupply: 0.15, PUnasked: 0.003, PSyncLedger: 0.002, PNotify: 0.05, SlowNode: -1, ResetDelayNode: -1}
		initTx = r.Intn(8)
		if cfg.AMEV > 0 {
			// anti-MEV switches on in the middle of the run: let lagging nodes often get the block before the
			// enabling height from the ledger while their instance still works on it (Reset pending)
			cfg.K.PSyncLedger = 0.03
		}
	case "byz", "byz-flips":
		cfg = baseConfig(s, r, Opt{Ns: []int{4, 4, 4, 5, 6, 7, 7, 10}})
		byzFlips = s.Profile == "byz-flips"
		cfg.K = vnet.Knobs{PDrop: 0.01, PDup: 0.05, PEarlyTimer: 0.01, PStaleTimer: 0.002, PAdvance: 0.02,
			PDelayReset: 0.3, PTimeoutDecided: 0.03, PNewTx: 0.02, PTxMissing: 0.1, PSupply: 0.15, PSyncLedger: 0.002, PAdv: 0.12, SlowNode: -1, ResetDelayNode: -1}
		adv = true
		initTx = r.Intn(8)
	case "amnesia-async":
		// hostile (asynchronous) runs in which up to F validators restart with empty consensus state at
		// arbitrary scheduler steps, possibly several times; with F >= 2 one of the faulty ones may be Byzantine
		cfg = baseConfig(s, r, Opt{Ns: []int{4, 4, 4, 5, 6, 7, 7, 10}, Dyn: 1})
		cfg.K = vnet.Knobs{PDrop: 0.01, PDup: 0.06, PEarlyTimer: 0.012, PStaleTimer: 0.003, PAdvance: 0.02,
			PDelayReset: 0.3, PTimeoutDecided: 0.03, PNewTx: 0.02, PTxMissing: 0.15, PSupply: 0.15, PSyncLedger: 0.004,
			PRestart: []float64{0.002, 0.006, 0.02}[r.Intn(3)], MaxRestarts: 1 + r.Intn(4), SlowNode: -1, ResetDelayNode: -1}
		amnesiaAsync = true
		initTx = r.Intn(8)
	case "missing-tx":
		cfg = baseConfig(s, r, Opt{Ns: []int{2, 3, 4, 4, 5, 7}})
		cfg.TxPerBlock = 1 + r.Intn(5)
		cfg.K = vnet.Knobs{PDup: 0.05, PEarlyTimer: 0.008, PAdvance: 0.01, PDelayReset: 0.3, PNewTx: 0.06, PTxMissing: 0.5,
			PSupply: 0.1, PUnasked: 0.01, PSyncLedger: 0.002, SlowNode: -1, ResetDelayNode: -1}
		initTx = 2 + r.Intn(8)
		rejecting = true
	case "valset":
		// validator set size / membership / order / own index change between heights; all honest
		cfg = baseConfig(s, r, Opt{Ns: []int{4, 5, 6, 7}, MinH: 3, MaxH: 5})
		cfg.Watchers = 1 + r.Intn(3)
		cfg.K = vnet.Knobs{PDrop: 0.01, PDup: 0.08, PEarlyTimer: 0.004, PStaleTimer: 0.01, PAdvance: 0.01, PDelayReset: 0.6, PTimeoutDecided: 0.05,
			PNewTx: 0.02, PTxMissing: 0.1, PSupply: 0.15, PSyncLedger: 0.01, SlowNode: -1, ResetDelayNode: -1}
		total := cfg.N + cfg.Watchers
		vseed := s.Seed
		minN := 1 + r.Intn(4)
		cfg.ValSchedule = func(idx uint32) []int {
			rr := rand.New(rand.NewSource(vseed ^ int64(idx)*2654435761))
			n := minN + rr.Intn(total-minN+1)
			return rr.Perm(total)[:n]
		}
		initTx = r.Intn(6)
		if r.Intn(2) == 0 {
			// the block time (and the maximum block time, if configured) changes from height to height
			if r.Intn(2) == 0 {
				cfg.MaxTPB = cfg.TPB * 3
			}
			t0, m0, tseed := cfg.TPB, cfg.MaxTPB, s.Seed
			cfg.TimeSchedule = func(h uint32) (time.Duration, time.Duration) {
				rr := rand.New(rand.NewSource(tseed ^ int64(h)*40503))
				k := time.Duration(1 + rr.Intn(4))
				return t0 * k / 2, m0 * time.Duration(1+rr.Intn(3)) * k / 2
			}
		}
	case "watch":
		// one validator of the list runs with the watch-only flag; extra nodes outside the list observe
		cfg = baseConfig(s, r, Opt{Ns: []int{4, 4, 5, 6, 7}, MinH: 3, MaxH: 5, Dyn: 1})
		cfg.Watchers = r.Intn(3)
		cfg.K.Sync = true
		cfg.K.PDup = 0.05
		cfg.K.NotifyAll = true
		cfg.K.PNewTx = 0.02
		cfg.WatchFlag = make([]bool, cfg.N+cfg.Watchers)
		if cfg.Watchers > 0 && r.Intn(2) == 0 {
			// hot standby: an extra node runs watch-only with the key of an active validator and
			// therefore sees payloads bearing its own index
			cfg.WatchFlag[cfg.N] = true
			cfg.KeyOf = map[int]int{cfg.N: r.Intn(cfg.N)}
		} else {
			cfg.WatchFlag[r.Intn(cfg.N)] = true
		}
		watchRejects = r.Intn(2) == 0
		if r.Intn(2) == 0 {
			cfg.K.PTxMissing = 0.4 // proposals with transactions the watch-only node has to wait for
			cfg.TxPerBlock = 1 + r.Intn(4)
		}
		watchFlips = r.Intn(3) == 0
		if r.Intn(2) == 0 {
			cfg.LatMin, cfg.LatMax = cfg.TPB/100, cfg.TPB/100
		}
		if cfg.BaseHeight == 0 {
			cfg.BaseHeight = 1
		}
		cfg.MaxClock = time.Duration(cfg.Heights) * 200 * cfg.TPB
		initTx = r.Intn(6)
	case "async-then-sync":
		// "once the network is synchronous": an arbitrary asynchronous prefix (reordering, loss, duplication,
		// early timeouts, possibly a restart of one validator or up to F silent ones) and then GST, after
		// which everything due is delivered before timers fire
		cfg = baseConfig(s, r, Opt{Ns: []int{4, 4, 5, 6, 7, 7, 10}, MinH: 2, MaxH: 3, AMEVModes: []int{0, 0, 1}})
		// no loss: whatever is sent before GST is delivered, possibly late and out of order (loss inside a
		// cut is the partition profile's business; arbitrary loss reaches the documented dBFT 2.0 liveness
		// lock of TestDBFT_FourGoodNodesDeadlock, which the property does not cover)
		cfg.K = vnet.Knobs{PDup: 0.05, PEarlyTimer: []float64{0.01, 0.05}[r.Intn(2)], PStaleTimer: 0.005, PAdvance: []float64{0.03, 0.2}[r.Intn(2)],
			PDelayReset: 0.3, PNewTx: 0.01, SlowNode: -1, ResetDelayNode: -1}
		if cfg.BaseHeight == 0 {
			cfg.BaseHeight = 1
		}
		cfg.MaxSteps = 60000 + 600*cfg.N*cfg.N
		cfg.MaxClock = 0
		asyncThenSync = true
		initTx = r.Intn(5)
	case "silent-f", "partition", "amnesia":
		cfg = baseConfig(s, r, Opt{Ns: []int{4, 4, 5, 6, 7, 7, 8, 10}, MinH: 2, MaxH: 4, AMEVModes: []int{0, 0, 1}, Dyn: 1})
		cfg.K = vnet.Knobs{Sync: true, PDup: 0.03, PNewTx: 0.01, NotifyAll: true, PSyncLedger: []float64{0.002, 0.02}[r.Intn(2)], SlowNode: -1, ResetDelayNode: -1}
		idle := cfg.MaxTPB > 0 && r.Intn(2) == 0 // dynamic block time on an idle chain: nobody ever has a transaction
		if idle {
			cfg.K.PNewTx = 0
		}
		if r.Intn(2) == 0 {
			cfg.LatMin, cfg.LatMax = cfg.TPB/100, cfg.TPB/50
		}
		if cfg.BaseHeight == 0 {
			cfg.BaseHeight = 1
		}
		cfg.MaxSteps = 60000 + 600*cfg.N*cfg.N
		cfg.MaxClock = 0
		initTx = r.Intn(5)
		if idle {
			initTx = 0
		}
	default:
		panic("unknown profile " + s.Profile)
	}
	if !cfg.K.Sync && cfg.MaxSteps > 2*(6000+1500*cfg.N) && s.Profile != "async-then-sync" {
		// hostile runs may never finish (loss, adversaries): their step cap stays moderate, a run that reaches it
		// is simply over (no monitor judges progress there); the N^2-scaled cap is for the synchronous profiles
		cfg.MaxSteps = 2 * (6000 + 1500*cfg.N)
	}
	cfg.Roles = make([]vnet.Role, cfg.N+cfg.Watchers)
	if amnesiaAsync {
		f := (cfg.N - 1) / 3
		perm := r.Perm(cfg.N)
		nb := 0
		if f >= 2 && r.Intn(2) == 0 {
			nb = 1 + r.Intn(f-1)
			adv = true
			cfg.K.PAdv = 0.1
		}
		for _, id := range perm[:nb] {
			cfg.Roles[id] = vnet.Byzantine
		}
		na := 1 + r.Intn(f-nb)
		cfg.K.RestartSet = append([]int{}, perm[nb:nb+na]...)
	} else if adv {
		f := (cfg.N - 1) / 3
		nb := 1 + r.Intn(f)
		for _, id := range r.Perm(cfg.N)[:nb] {
			cfg.Roles[id] = vnet.Byzantine
		}
	}
	f := (cfg.N - 1) / 3
	switch s.Profile {
	case "silent-f":
		// up to F validators are silent from the start, always including the primaries of the first views
		ns := 1 + r.Intn(f)
		h1 := cfg.BaseHeight + 1
		for v := 0; v < ns; v++ {
			cfg.Roles[int((int64(h1)-int64(v)+int64(4*cfg.N))%int64(cfg.N))] = vnet.Silent
		}
		if r.Intn(3) == 0 { // ... or an arbitrary choice
			cfg.Roles = make([]vnet.Role, cfg.N)
			for _, id := range r.Perm(cfg.N)[:ns] {
				cfg.Roles[id] = vnet.Silent
			}
		}
	case "amnesia":
		if cfg.N >= 7 && r.Intn(3) == 0 {
			// the primary of the first height is silent, so the view changes; the primary of view 1 will
			// be restarted right after its proposal (silent + amnesiac = 2 <= F)
			amnesiaAfterProposal = true
			cfg.Roles[int((uint64(cfg.BaseHeight)+1)%uint64(cfg.N))] = vnet.Silent
		}
	case "partition":
		if r.Intn(3) == 0 && f > 0 { // additionally one silent validator
			cfg.Roles[r.Intn(cfg.N)] = vnet.Silent
		}
	}
	if asyncThenSync {
		f := (cfg.N - 1) / 3
		// (no restarts here: an asynchronous prefix combined with amnesia stalls in further ways that all
		// come down to DESIGN 5.12 - the peers keep and count the commit of the earlier incarnation -
		// and belong to the amnesia profile's clause, not to this one)
		if r.Intn(2) == 0 { // up to F silent validators
			for _, id := range r.Perm(cfg.N)[:1+r.Intn(f)] {
				cfg.Roles[id] = vnet.Silent
			}
		}
	}
	c := vnet.NewCluster(cfg, mons...)
	if asyncThenSync {
		gstAt := 20 + r.Intn(60*cfg.N)
		synced := false
		hooks.BeforeStep = func(c *vnet.Cluster) {
			if !synced && c.Steps >= gstAt {
				synced = true
				c.Cfg.K = vnet.Knobs{Sync: true, PDup: 0.03, NotifyAll: true, PSyncLedger: 0.01, SlowNode: -1, ResetDelayNode: -1}
				c.NoteFault()
			}
		}
		hooks.Done = func(c *vnet.Cluster) bool { return synced && c.AllDone() }
	}
	switch s.Profile {
	case "partition":
		// an arbitrary cut set is completely cut off from an arbitrary event on, for an arbitrary period
		cutAt := 1 + r.Intn(40*cfg.N)
		size := 1 + r.Intn(cfg.N-1)
		set := r.Perm(cfg.N)[:size]
		dur := int64(cfg.TPB) * int64(1+r.Intn(80)) / 2
		var cutClock int64 = -1
		hooks.BeforeStep = func(c *vnet.Cluster) {
			switch {
			case cutClock < 0 && c.Steps >= cutAt:
				c.SetCut(set)
				cutClock = c.Clock
			case cutClock >= 0 && len(c.Cut) > 0 && c.Clock >= cutClock+dur:
				c.SetCut(nil)
			}
		}
		hooks.Done = func(c *vnet.Cluster) bool { return cutClock >= 0 && len(c.Cut) == 0 && c.AllDone() }
	case "amnesia":
		// one validator (<= F) restarts with empty consensus state at arbitrary events
		x := r.Intn(cfg.N)
		at := []int{1 + r.Intn(40*cfg.N)}
		if r.Intn(2) == 0 {
			at = append(at, at[0]+1+r.Intn(30*cfg.N))
		}
		afterProposal := amnesiaAfterProposal // restart right after a proposal of x in a view > 0 went out
		if afterProposal {
			x = int((uint64(cfg.BaseHeight) + uint64(cfg.N)) % uint64(cfg.N)) // primary of (first height, view 1)
			at = at[:1]
		}
		seen := 0
		hooks.BeforeStep = func(c *vnet.Cluster) {
			if afterProposal && len(at) > 0 {
				for ; seen < len(c.Trace); seen++ {
					e := c.Trace[seen]
					if e.Node == x && e.Kind == vnet.KSend && e.P.T == dbft.PrepareRequestType && e.P.View > 0 && c.Nodes[x].Live() {
						at = at[1:]
						c.NoteFault()
						c.Nodes[x].Restart()
						seen = len(c.Trace)
						return
					}
				}
			}
			if len(at) > 0 && c.Steps >= at[0] && (!afterProposal || c.Steps > 60*cfg.N) {
				at = at[1:]
				if n := c.Nodes[x]; n.Live() {
					c.NoteFault()
					n.Restart()
				}
			}
		}
		hooks.Done = func(c *vnet.Cluster) bool { return len(at) == 0 && c.AllDone() }
	}
	if adv {
		a := vnet.NewAdversary(c)
		a.Withhold = []float64{0, 0.1, 0.5}[r.Intn(3)]
		if r.Intn(3) == 0 {
			// payload-level policy: a quarter of the adversary-made payloads are invalid by policy on every node
			for _, n := range c.Nodes {
				n.RejectForgedBelow = 64
			}
		}
		if r.Intn(3) == 0 {
			// payload-level policy of some honest nodes rejects whatever a Byzantine validator sends
			for _, n := range c.Nodes {
				if n.Role == vnet.Honest && r.Intn(2) == 0 {
					for _, b := range a.Byz {
						n.RejectFrom[uint16(b.ID)] = true
					}
				}
			}
		}
	}
	for i := 0; i < initTx; i++ {
		c.AddTx(false, cfg.K.PTxMissing)
	}
	if byzFlips {
		// the application switches the watch-only flag of one or two honest validators on and off at
		// arbitrary steps (a node that turns watch-only counts as one of the F silent ones only in
		// spirit: it keeps listening and comes back)
		var flip []*vnet.Node
		for _, n := range c.Nodes {
			if n.Role == vnet.Honest && len(flip) < 1+r.Intn(2) && r.Intn(2) == 0 {
				flip = append(flip, n)
			}
		}
		if len(flip) == 0 {
			flip = append(flip, c.HonestLiveOrAll()[0])
		}
		prev := hooks.BeforeStep
		hooks.BeforeStep = func(c *vnet.Cluster) {
			if prev != nil {
				prev(c)
			}
			if c.Rng.Intn(40) == 0 {
				n := flip[c.Rng.Intn(len(flip))]
				n.Watch = !n.Watch
				c.Stats["watch-flag-flips"]++
			}
		}
	}
	if watchFlips {
		// the watch-only flag of one more validator is switched on and off in the middle of rounds
		flip := c.Nodes[r.Intn(cfg.N)]
		hooks.BeforeStep = func(c *vnet.Cluster) {
			if c.Rng.Intn(25) == 0 {
				flip.Watch = !flip.Watch
			}
		}
	}
	if watchRejects {
		// the watch-only node's own verification callbacks reject some blocks / some senders
		for _, n := range c.Nodes {
			if !n.Watch {
				continue
			}
			for h := 1; h <= cfg.Heights; h++ {
				if r.Intn(2) == 0 {
					n.RejectBlocks[[2]uint32{cfg.BaseHeight + uint32(h), 0}] = true
				}
			}
			if r.Intn(2) == 0 {
				n.RejectFrom[uint16(r.Intn(cfg.N))] = true
			}
		}
	}
	if cfg.AMEV >= 0 && (s.Profile == "byz" || s.Profile == "byz-flips" || s.Profile == "async-benign" || s.Profile == "missing-tx" || s.Profile == "amnesia-async") && r.Intn(2) == 0 {
		// failing pre-block / block callbacks (allowed to fail under anti-MEV: the node waits for more (pre)commits)
		for _, n := range c.Nodes {
			if r.Intn(3) == 0 {
				n.FailPreBlock = r.Intn(3)
				n.FailBlock = r.Intn(3)
			}
		}
	}
	if rejecting {
		// some verifiers reject the completed block of some (height, view 0)
		for _, n := range c.Nodes {
			if r.Intn(4) == 0 {
				n.NoPoolOnSupply = true // this application does not pool what it hands to OnTransaction
			}
			for h := 1; h <= cfg.Heights; h++ {
				if r.Intn(4) == 0 {
					n.RejectBlocks[[2]uint32{cfg.BaseHeight + uint32(h), 0}] = true
				}
			}
		}
	}
	if s.Profile == "dyn" {
		// transactions appear never / before the minimum / at random instants of the extended wait
		span := int64(cfg.Heights+1) * int64(max(cfg.MaxTPB, cfg.TPB))
		var at []int64
		for i := r.Intn(2 * cfg.Heights); i > 0; i-- {
			at = append(at, r.Int63n(span))
		}
		sort.Slice(at, func(i, j int) bool { return at[i] < at[j] })
		c.TxSchedule = at
	}
	switch s.Profile {
	case "silent-f", "partition", "amnesia", "async-then-sync":
		// a run that has made no progress for 3000 block times after the last fault event is stalled for good
		// (the largest progress bound judged is 16*2^7 block times): stop it instead of burning the step cap
		T := int64(max(cfg.TPB, cfg.MaxTPB))
		prev := hooks.Done
		hooks.Done = func(c *vnet.Cluster) bool {
			if prev != nil {
				if prev(c) {
					return true
				}
			} else if c.AllDone() {
				return true
			}
			if len(c.Cut) > 0 || c.Clock-c.LastFault() <= 3000*T {
				return false
			}
			last := c.LastFault()
			for _, n := range c.Nodes {
				for _, a := range n.Accepted {
					if a.Clock > last {
						last = a.Clock
					}
				}
			}
			return c.Clock-last > 3000*T
		}
	}
	return &Built{C: c, Hooks: hooks, Spec: s}
}

// Go starts all nodes and runs the scheduler to the end.
func (b *Built) Go() {
	b.C.StartAll(!b.C.Cfg.K.FIFO)
	b.C.Run(b.Hooks)
	if Only >= 0 && os.Getenv("VERIF_DUMP") != "" {
		Dump(b.C, os.Getenv("VERIF_DUMP"))
	}
}

// Dump prints the final node states and the trace lines containing pat (debugging aid for replays).
func Dump(c *vnet.Cluster, pat string) {
	fmt.Println("cfg:", CfgSummary(c))
	for _, e := range c.Trace {
		if s := e.String(); pat == "all" || strings.Contains(s, pat) {
			fmt.Println(s)
		}
	}
	for _, n := range c.Nodes {
		if n.D == nil {
			fmt.Printf("n%d: no instance (%s)\n", n.ID, n.Role)
			continue
		}
		fp := mon.Fingerprint(n)
		fmt.Printf("n%d %s restarts=%d height=%d requested=%d pool=%d\n  %s\n  seen %s\n  cache %s\n  timer %s\n", n.ID, n.Role, n.Restarts, n.Height(), len(n.Requested), len(n.Pool), fp.Core, fp.LastSeen, fp.Cache, fp.Timer)
	}
}

// CfgSummary renders the configuration for witnesses and samples.
func CfgSummary(c *vnet.Cluster) map[string]any {
	cfg := c.Cfg
	roles := ""
	for _, n := range c.Nodes {
		roles += string("hsb"[n.Role])
	}
	return map[string]any{
		"profile": cfg.Profile, "seed": cfg.Seed, "N": cfg.N, "watchers": cfg.Watchers, "base_height": cfg.BaseHeight,
		"heights": cfg.Heights, "amev_height": cfg.AMEV, "tpb": cfg.TPB.String(), "max_tpb": cfg.MaxTPB.String(),
		"epoch": time.Unix(0, cfg.Epoch).UTC().Format(time.RFC3339), "lat": fmt.Sprintf("%s..%s", cfg.LatMin, cfg.LatMax),
		"roles": roles, "tx_per_block": cfg.TxPerBlock, "steps": c.Steps, "clock": time.Duration(c.Clock).String(),
		"aborted": c.AbortWhy,
	}
}

// Parallel runs f(i) for i in [0,n) on all cores.
func Parallel(n int, f func(i int)) {
	w := runtime.NumCPU()
	if w > n {
		w = n
	}
	var wg sync.WaitGroup
	ch := make(chan int, 64)
	for k := 0; k < w; k++ {
		wg.Add(1)
		go func() {
			defer wg.Done()
			for i := range ch {
				f(i)
			}
		}()
	}
	for i := 0; i < n; i++ {
		ch <- i
	}
	close(ch)
	wg.Wait()
}

// RunSeed derives the seed of run idx of a check.
func RunSeed(r *ev.Run, profile string, idx int) int64 {
	var h int64 = r.Seed*1000003 + int64(idx)*7919
	for _, ch := range profile {
		h = h*31 + int64(ch)
	}
	if h < 0 {
		h = -h
	}
	return h
}

// Only returns the run index selected with -only (or -1).
var Only = -1

// PanicsToViolations reports library panics of a run (they are C11 violations;
// for other properties the run is inconclusive).
func PanicsToViolations(r *ev.Run, c *vnet.Cluster, spec Spec) {
	for _, p := range c.Panics {
		if r.Prop == "C11" {
			r.Violation("panic:"+p.API, fmt.Sprintf("library panicked in %s(%s): %s", p.API, p.Arg, p.Value),
				map[string]any{"spec": spec, "cfg": CfgSummary(c), "panic": p, "tail": tailStrings(c, 60)})
		} else {
			r.Count("runs-aborted-by-library-panic", 1)
		}
	}
}

func tailStrings(c *vnet.Cluster, n int) []string {
	tr := c.Trace
	if len(tr) > n {
		tr = tr[len(tr)-n:]
	}
	res := make([]string, len(tr))
	for i, e := range tr {
		res[i] = e.String()
	}
	return res
}
