package checks

import (
	"time"

	"github.com/nspcc-dev/dbft"
	"github.com/nspcc-dev/dbft/verifh/vnet"
)

// Directed scenarios: minimal scripted histories that exhibit the findings
// listed in KNOWN_FINDINGS.txt. They run under the same monitors as the
// randomised workloads; nothing in them is special-cased by the monitors.

func directedCluster(name string, amev int64, mons []vnet.Monitor) (*vnet.Cluster, *vnet.Node) {
	cfg := vnet.Config{Seed: 4242, Profile: name, N: 4, BaseHeight: 3, Heights: 1, AMEV: amev, TPB: time.Second,
		Epoch: time.Date(2031, 5, 1, 0, 0, 0, 0, time.UTC).UnixNano(), MaxSteps: 1000}
	cfg.GenesisTs = uint64(cfg.Epoch) - uint64(cfg.TPB)
	cfg.K.SlowNode, cfg.K.ResetDelayNode = -1, -1
	// height 4, view 0: primary index 0
	cfg.Roles = []vnet.Role{vnet.Byzantine, vnet.Honest, vnet.Honest, vnet.Honest}
	c := vnet.NewCluster(cfg, mons...)
	a := vnet.NewAdversary(c)
	for _, n := range c.Nodes[1:] {
		n.Start()
	}
	return c, a.Byz[0]
}

// deliverWhere delivers (and removes) every in-flight envelope matching pred, in order.
func deliverWhere(c *vnet.Cluster, pred func(e *vnet.Envelope) bool) int {
	cnt := 0
	for {
		found := -1
		for i, e := range c.Inflight {
			if pred(e) {
				found = i
				break
			}
		}
		if found < 0 {
			return cnt
		}
		e := c.Inflight[found]
		c.Inflight = append(c.Inflight[:found], c.Inflight[found+1:]...)
		c.Deliver(e)
		cnt++
	}
}

func finish(c *vnet.Cluster) {
	for _, m := range c.Mons {
		m.End(c)
	}
}

// DirectedFork: §5.1 of DESIGN.md.
func DirectedFork(mons ...vnet.Monitor) *Built {
	c, byz := directedCluster("directed-fork", -1, mons)
	a := c.Adv
	h := c.Cfg.BaseHeight + 1
	tip := c.Nodes[1].TipHash()
	ts := c.Nodes[1].TipTs() + uint64(time.Second)
	mk := func(t dbft.MessageType, body any) *vnet.Payload {
		return &vnet.Payload{T: t, Hgt: h, View: 0, Idx: 0, Body: body}
	}
	p1 := mk(dbft.PrepareRequestType, &vnet.PrepReq{Ts: ts, Nc: 1, Hashes: []vnet.H{}})
	p2 := mk(dbft.PrepareRequestType, &vnet.PrepReq{Ts: ts, Nc: 2, Hashes: []vnet.H{}})
	// P1 and the primary's commit for it go to validators 1 and 2 only
	a.Inject(byz, p1, []int{1, 2}, "proposal P1")
	deliverWhere(c, func(e *vnet.Envelope) bool { return e.P == p1 })
	// their responses and commits circulate among 1 and 2 (3 hears nothing yet but the commits)
	deliverWhere(c, func(e *vnet.Envelope) bool { return e.P.T == dbft.PrepareResponseType && e.To != 3 && e.To != 0 })
	c1 := mk(dbft.CommitType, &vnet.CommitB{Sig: c.BlockFor(p1, tip).SignWith(byz.Key)})
	a.Inject(byz, c1, []int{1, 2}, "commit for P1")
	deliverWhere(c, func(e *vnet.Envelope) bool { return e.P.T == dbft.CommitType && e.To != 3 && e.To != 0 })
	// validator 3: the two genuine commits for P1 first, then P2, then the primary's commit for P2
	deliverWhere(c, func(e *vnet.Envelope) bool { return e.P.T == dbft.CommitType && e.To == 3 })
	a.Inject(byz, p2, []int{3}, "proposal P2")
	deliverWhere(c, func(e *vnet.Envelope) bool { return e.P == p2 })
	c2 := mk(dbft.CommitType, &vnet.CommitB{Sig: c.BlockFor(p2, tip).SignWith(byz.Key)})
	a.Inject(byz, c2, []int{3}, "commit for P2")
	deliverWhere(c, func(e *vnet.Envelope) bool { return e.P == c2 })
	finish(c)
	return &Built{C: c, Spec: Spec{Profile: "directed-fork", Idx: -1, Seed: c.Cfg.Seed}}
}

// DirectedEarlyCommit: one garbage commit of a Byzantine validator stored before the proposal.
func DirectedEarlyCommit(mons ...vnet.Monitor) *Built {
	c, byz := directedCluster("directed-early-commit", -1, mons)
	// the Byzantine validator must not be the primary here: use height 5 (primary index 1)
	// by letting the honest nodes run on base height 4 instead: simply use view-0 primary 0 = byz
	// and have byz behave as an honest primary apart from the garbage commit.
	a := c.Adv
	h := c.Cfg.BaseHeight + 1
	tip := c.Nodes[1].TipHash()
	ts := c.Nodes[1].TipTs() + uint64(time.Second)
	mk := func(t dbft.MessageType, body any) *vnet.Payload {
		return &vnet.Payload{T: t, Hgt: h, View: 0, Idx: 0, Body: body}
	}
	garbage := mk(dbft.CommitType, &vnet.CommitB{Sig: make([]byte, 64)})
	a.Inject(byz, garbage, []int{3}, "garbage commit before the proposal")
	deliverWhere(c, func(e *vnet.Envelope) bool { return e.P == garbage })
	p := mk(dbft.PrepareRequestType, &vnet.PrepReq{Ts: ts, Nc: 7, Hashes: []vnet.H{}})
	a.Inject(byz, p, []int{1, 2, 3}, "proposal")
	deliverWhere(c, func(e *vnet.Envelope) bool { return e.P == p })
	_ = tip
	// honest traffic to completion; the primary sends no valid commit at all
	deliverWhere(c, func(e *vnet.Envelope) bool { return e.To != 0 })
	finish(c)
	return &Built{C: c, Spec: Spec{Profile: "directed-early-commit", Idx: -1, Seed: c.Cfg.Seed}}
}

// DirectedEarlyPreCommit: anti-MEV variant with a garbage pre-commit.
func DirectedEarlyPreCommit(mons ...vnet.Monitor) *Built {
	c, byz := directedCluster("directed-early-precommit", 0, mons)
	a := c.Adv
	h := c.Cfg.BaseHeight + 1
	ts := c.Nodes[1].TipTs() + uint64(time.Second)
	mk := func(t dbft.MessageType, body any) *vnet.Payload {
		return &vnet.Payload{T: t, Hgt: h, View: 0, Idx: 0, Body: body}
	}
	garbage := mk(dbft.PreCommitType, &vnet.PreCommitB{D: make([]byte, 16)})
	a.Inject(byz, garbage, []int{3}, "garbage pre-commit before the proposal")
	deliverWhere(c, func(e *vnet.Envelope) bool { return e.P == garbage })
	p := mk(dbft.PrepareRequestType, &vnet.PrepReq{Ts: ts, Nc: 7, Hashes: []vnet.H{}})
	a.Inject(byz, p, []int{1, 2, 3}, "proposal")
	deliverWhere(c, func(e *vnet.Envelope) bool { return e.P == p })
	// node 3 first hears only from node 1, so that its pre-block hand-over happens with
	// {own, node 1, garbage}; afterwards everything else is delivered
	deliverWhere(c, func(e *vnet.Envelope) bool { return e.P.T == dbft.PrepareResponseType && e.To != 0 })
	deliverWhere(c, func(e *vnet.Envelope) bool { return e.To == 3 && e.From == 1 })
	deliverWhere(c, func(e *vnet.Envelope) bool { return e.To != 0 })
	finish(c)
	return &Built{C: c, Spec: Spec{Profile: "directed-early-precommit", Idx: -1, Seed: c.Cfg.Seed}}
}
