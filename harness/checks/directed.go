package checks

import (
	"math/rand"
	"time"

	"github.com/nspcc-dev/dbft"
	"github.com/nspcc-dev/dbft/verifh/mon"
	"github.com/nspcc-dev/dbft/verifh/vnet"
)

// Directed scenarios: minimal scripted histories that exhibit the findings
// listed in KNOWN_FINDINGS.txt. They run under the same monitors as the
// randomised workloads; nothing in them is special-cased by the monitors.

func directedCluster(name string, amev int64, mons []vnet.Monitor) (*vnet.Cluster, *vnet.Node) {
	cfg := vnet.Config{Seed: 4242, Profile: name, N: 4, BaseHeight: 3, Heights: 1, AMEV: amev, TPB: time.Second,
		Epoch: time.Date(2031, 5, 1, 0, 0, 0, 0, time.UTC).UnixNano(), MaxSteps: 1000}
	cfg.GenesisTs = uint64(cfg.Epoch) - uint64(cfg.TPB)
	cfg.K.SlowNode, cfg.K.ResetDelayNode = -1, -1
	// height 4, view 0: primary index 0
	cfg.Roles = []vnet.Role{vnet.Byzantine, vnet.Honest, vnet.Honest, vnet.Honest}
	c := vnet.NewCluster(cfg, mons...)
	a := vnet.NewAdversary(c)
	for _, n := range c.Nodes[1:] {
		n.Start()
	}
	return c, a.Byz[0]
}

// deliverWhere delivers (and removes) every in-flight envelope matching pred, in order.
func deliverWhere(c *vnet.Cluster, pred func(e *vnet.Envelope) bool) int {
	cnt := 0
	for {
		found := -1
		for i, e := range c.Inflight {
			if pred(e) {
				found = i
				break
			}
		}
		if found < 0 {
			return cnt
		}
		e := c.Inflight[found]
		c.Inflight = append(c.Inflight[:found], c.Inflight[found+1:]...)
		c.Deliver(e)
		cnt++
	}
}

func finish(c *vnet.Cluster) {
	for _, m := range c.Mons {
		m.End(c)
	}
}

// DirectedFork: §5.1 of DESIGN.md.
func DirectedFork(mons ...vnet.Monitor) *Built {
	c, byz := directedCluster("directed-fork", -1, mons)
	a := c.Adv
	h := c.Cfg.BaseHeight + 1
	tip := c.Nodes[1].TipHash()
	ts := c.Nodes[1].TipTs() + uint64(time.Second)
	mk := func(t dbft.MessageType, body any) *vnet.Payload {
		return &vnet.Payload{T: t, Hgt: h, View: 0, Idx: 0, Body: body}
	}
	p1 := mk(dbft.PrepareRequestType, &vnet.PrepReq{Ts: ts, Nc: 1, Hashes: []vnet.H{}})
	p2 := mk(dbft.PrepareRequestType, &vnet.PrepReq{Ts: ts, Nc: 2, Hashes: []vnet.H{}})
	// P1 and the primary's commit for it go to validators 1 and 2 only
	a.Inject(byz, p1, []int{1, 2}, "proposal P1")
	deliverWhere(c, func(e *vnet.Envelope) bool { return e.P == p1 })
	// their responses and commits circulate among 1 and 2 (3 hears nothing yet but the commits)
	deliverWhere(c, func(e *vnet.Envelope) bool { return e.P.T == dbft.PrepareResponseType && e.To != 3 && e.To != 0 })
	c1 := mk(dbft.CommitType, &vnet.CommitB{Sig: c.BlockFor(p1, tip).SignWith(byz.Key)})
	a.Inject(byz, c1, []int{1, 2}, "commit for P1")
	deliverWhere(c, func(e *vnet.Envelope) bool { return e.P.T == dbft.CommitType && e.To != 3 && e.To != 0 })
	// validator 3: the two genuine commits for P1 first, then P2, then the primary's commit for P2
	deliverWhere(c, func(e *vnet.Envelope) bool { return e.P.T == dbft.CommitType && e.To == 3 })
	a.Inject(byz, p2, []int{3}, "proposal P2")
	deliverWhere(c, func(e *vnet.Envelope) bool { return e.P == p2 })
	c2 := mk(dbft.CommitType, &vnet.CommitB{Sig: c.BlockFor(p2, tip).SignWith(byz.Key)})
	a.Inject(byz, c2, []int{3}, "commit for P2")
	deliverWhere(c, func(e *vnet.Envelope) bool { return e.P == c2 })
	finish(c)
	return &Built{C: c, Spec: Spec{Profile: "directed-fork", Idx: -1, Seed: c.Cfg.Seed}}
}

// DirectedEarlyCommit: one garbage commit of a Byzantine validator stored before the proposal.
func DirectedEarlyCommit(mons ...vnet.Monitor) *Built {
	c, byz := directedCluster("directed-early-commit", -1, mons)
	// the Byzantine validator must not be the primary here: use height 5 (primary index 1)
	// by letting the honest nodes run on base height 4 instead: simply use view-0 primary 0 = byz
	// and have byz behave as an honest primary apart from the garbage commit.
	a := c.Adv
	h := c.Cfg.BaseHeight + 1
	tip := c.Nodes[1].TipHash()
	ts := c.Nodes[1].TipTs() + uint64(time.Second)
	mk := func(t dbft.MessageType, body any) *vnet.Payload {
		return &vnet.Payload{T: t, Hgt: h, View: 0, Idx: 0, Body: body}
	}
	garbage := mk(dbft.CommitType, &vnet.CommitB{Sig: make([]byte, 64)})
	a.Inject(byz, garbage, []int{3}, "garbage commit before the proposal")
	deliverWhere(c, func(e *vnet.Envelope) bool { return e.P == garbage })
	p := mk(dbft.PrepareRequestType, &vnet.PrepReq{Ts: ts, Nc: 7, Hashes: []vnet.H{}})
	a.Inject(byz, p, []int{1, 2, 3}, "proposal")
	deliverWhere(c, func(e *vnet.Envelope) bool { return e.P == p })
	_ = tip
	// honest traffic to completion; the primary sends no valid commit at all
	deliverWhere(c, func(e *vnet.Envelope) bool { return e.To != 0 })
	finish(c)
	return &Built{C: c, Spec: Spec{Profile: "directed-early-commit", Idx: -1, Seed: c.Cfg.Seed}}
}

// DirectedEarlyPreCommit: anti-MEV variant with a garbage pre-commit.
func DirectedEarlyPreCommit(mons ...vnet.Monitor) *Built {
	c, byz := directedCluster("directed-early-precommit", 0, mons)
	a := c.Adv
	h := c.Cfg.BaseHeight + 1
	ts := c.Nodes[1].TipTs() + uint64(time.Second)
	mk := func(t dbft.MessageType, body any) *vnet.Payload {
		return &vnet.Payload{T: t, Hgt: h, View: 0, Idx: 0, Body: body}
	}
	garbage := mk(dbft.PreCommitType, &vnet.PreCommitB{D: make([]byte, 16)})
	a.Inject(byz, garbage, []int{3}, "garbage pre-commit before the proposal")
	deliverWhere(c, func(e *vnet.Envelope) bool { return e.P == garbage })
	p := mk(dbft.PrepareRequestType, &vnet.PrepReq{Ts: ts, Nc: 7, Hashes: []vnet.H{}})
	a.Inject(byz, p, []int{1, 2, 3}, "proposal")
	deliverWhere(c, func(e *vnet.Envelope) bool { return e.P == p })
	// node 3 first hears only from node 1, so that its pre-block hand-over happens with
	// {own, node 1, garbage}; afterwards everything else is delivered
	deliverWhere(c, func(e *vnet.Envelope) bool { return e.P.T == dbft.PrepareResponseType && e.To != 0 })
	deliverWhere(c, func(e *vnet.Envelope) bool { return e.To == 3 && e.From == 1 })
	deliverWhere(c, func(e *vnet.Envelope) bool { return e.To != 0 })
	finish(c)
	return &Built{C: c, Spec: Spec{Profile: "directed-early-precommit", Idx: -1, Seed: c.Cfg.Seed}}
}

// DirectedNestedTx: completing the view-0 proposal inside OnTransaction makes
// the backup reject the block, reach M change views with its own request,
// enter view 1 and take up the cached view-1 proposal (which misses other
// transactions) - all inside the same OnTransaction call. Then every
// transaction requested for the new proposal is supplied. The shape (N,
// number of old/new transactions, supply orders) is drawn from rng; rng==nil
// gives the canonical N=4 instance.
func DirectedNestedTx(rng *rand.Rand, mons ...vnet.Monitor) *Built {
	n, nOld, nNew := 4, 3, 3
	if rng != nil {
		n = []int{4, 5, 7}[rng.Intn(3)]
		nOld, nNew = 1+rng.Intn(4), 1+rng.Intn(4)
	}
	cfg := vnet.Config{Seed: 777, Profile: "directed-nested-tx", N: n, Heights: 1, AMEV: -1, TPB: time.Second, TxPerBlock: 8,
		Epoch: time.Date(2031, 5, 1, 0, 0, 0, 0, time.UTC).UnixNano(), MaxSteps: 1000}
	if rng != nil {
		cfg.Seed = rng.Int63()
		if rng.Intn(3) == 0 {
			cfg.AMEV = 0
		}
	}
	cfg.BaseHeight = uint32(2*n - 1) // height 2n: primary of view 0 is validator 0, of view 1 is validator n-1
	cfg.GenesisTs = uint64(cfg.Epoch) - uint64(cfg.TPB)
	cfg.K.SlowNode, cfg.K.ResetDelayNode = -1, -1
	cfg.Roles = make([]vnet.Role, n)
	c := vnet.NewCluster(cfg, mons...)
	h := cfg.BaseHeight + 1
	x := c.Nodes[1]
	next := c.Nodes[n-1]
	var old, nw []*vnet.Tx
	for i := 0; i < nOld; i++ {
		old = append(old, c.NewTx(false))
	}
	for i := 0; i < nNew; i++ {
		nw = append(nw, c.NewTx(false))
	}
	for _, nd := range c.Nodes {
		if nd != x {
			for _, t := range old {
				nd.Pool[t.Hash()] = t
			}
		}
		if nd.ID != 0 {
			nd.RejectBlocks[[2]uint32{h, 0}] = true
		}
	}
	for i := n - 1; i >= 0; i-- {
		c.Nodes[i].Start() // the primary (validator 0) starts last and proposes the old transactions
	}
	m := n - (n-1)/3
	deliverWhere(c, func(e *vnet.Envelope) bool { return e.P.T == dbft.PrepareRequestType }) // backups reject and ask for view 1; x requests the transactions
	// x hears exactly M-1 change views for now, everybody else hears all of them
	toX := 0
	deliverWhere(c, func(e *vnet.Envelope) bool {
		if e.P.T != dbft.ChangeViewType {
			return false
		}
		if e.To == x.ID {
			if toX >= m-1 {
				return false
			}
			toX++
		}
		return true
	})
	if next.D.ViewNumber == 0 {
		c.Nodes[0].Timeout(h, 0, "scripted") // N=4: the primary's own request is needed for the others' quorum
		deliverWhere(c, func(e *vnet.Envelope) bool { return e.P.T == dbft.ChangeViewType && e.To != x.ID })
	}
	// the others are in view 1 now; its primary proposes other transactions (the old ones left its pool)
	for _, t := range old {
		delete(next.Pool, t.Hash())
	}
	if rng != nil && rng.Intn(2) == 0 {
		// the view-1 primary proposes some of the old transactions again, and x's application does not
		// pool what it hands over: x has to request them a second time for the new proposal
		x.NoPoolOnSupply = true
		k := 1 + rng.Intn(len(old))
		nw = append(nw, old[len(old)-k:]...)
		rng.Shuffle(len(nw), func(i, j int) { nw[i], nw[j] = nw[j], nw[i] })
	}
	for _, t := range nw {
		next.Pool[t.Hash()] = t
	}
	if dl, p := next.Timer.Deadline(); p && next.D.ViewNumber == 1 {
		c.Clock = dl
		next.FireTimer()
	}
	deliverWhere(c, func(e *vnet.Envelope) bool { return e.P.T == dbft.PrepareRequestType && e.P.View == 1 && e.To == x.ID })
	// x gets the transactions it asked for (in some order); the last one completes the view-0 block
	perm := func(l []*vnet.Tx) []*vnet.Tx {
		res := append([]*vnet.Tx(nil), l...)
		if rng != nil {
			rng.Shuffle(len(res), func(i, j int) { res[i], res[j] = res[j], res[i] })
		}
		return res
	}
	for _, t := range perm(old) {
		if x.Live() {
			x.SupplyTx(t)
		}
	}
	// now everything requested for the view-1 proposal
	for _, t := range perm(nw) {
		if x.Live() {
			x.SupplyTx(t)
		}
	}
	finish(c)
	return &Built{C: c, Spec: Spec{Profile: cfg.Profile, Idx: -1, Seed: cfg.Seed}}
}

// DirectedLatentCV: the recorded C11 finding. Node 0 of seven validators
// holds change-view requests a->1, b->1, own->1, c->2, d->2: five (= M)
// requests for view >= 1 that were only ever counted for view 2. The stored
// request a->1 is then delivered again.
func DirectedLatentCV(m *mon.Hygiene) *Built {
	cfg := vnet.Config{Seed: 991, Profile: "directed-latent-cv", N: 7, BaseHeight: 8, Heights: 1, AMEV: -1, TPB: time.Second,
		Epoch: time.Date(2031, 5, 1, 0, 0, 0, 0, time.UTC).UnixNano(), MaxSteps: 1000}
	cfg.GenesisTs = uint64(cfg.Epoch) - uint64(cfg.TPB)
	cfg.K.SlowNode, cfg.K.ResetDelayNode = -1, -1
	cfg.Roles = []vnet.Role{vnet.Honest, vnet.Silent, vnet.Silent, vnet.Silent, vnet.Silent, vnet.Silent, vnet.Silent}
	c := vnet.NewCluster(cfg, m)
	x := c.Nodes[0]
	x.Start()
	h := cfg.BaseHeight + 1 // 9: primary of view 0 is validator 2
	mk := func(t dbft.MessageType, idx int, body any) *vnet.Payload {
		return &vnet.Payload{T: t, Hgt: h, View: 0, Idx: uint16(idx), Body: body, Origin: -1}
	}
	for i := 1; i < 7; i++ { // everybody has been heard from
		x.Receive(mk(dbft.RecoveryRequestType, i, &vnet.RecReq{Ts: 1}))
	}
	a := mk(dbft.ChangeViewType, 1, &vnet.ChView{NewView: 1, Ts: 1})
	x.Receive(a)
	x.Receive(mk(dbft.ChangeViewType, 3, &vnet.ChView{NewView: 1, Ts: 1}))
	x.Timeout(h, 0, "scripted") // own request for view 1
	x.Receive(mk(dbft.ChangeViewType, 4, &vnet.ChView{NewView: 2, Ts: 1}))
	x.Receive(mk(dbft.ChangeViewType, 5, &vnet.ChView{NewView: 2, Ts: 1}))
	dup := a.Clone()
	m.Inject(c, x, mon.Probe{Class: "duplicate-ChangeView", AllowRecoveryReply: true, DupCV: a, Do: func() { x.Receive(dup) }})
	finish(c)
	return &Built{C: c, Spec: Spec{Profile: cfg.Profile, Idx: -1, Seed: cfg.Seed}}
}

// DirectedAmnesiacPrimary: the recorded C09 finding. The primary's proposal
// reaches two backups, which commit; the primary restarts with empty state
// and proposes another block that the third backup prepares. Afterwards the
// network is synchronous.
func DirectedAmnesiacPrimary(mons ...vnet.Monitor) *Built {
	cfg := vnet.Config{Seed: 992, Profile: "directed-amnesiac-primary", N: 4, BaseHeight: 3, Heights: 2, AMEV: -1, TPB: time.Second,
		Epoch: time.Date(2031, 5, 1, 0, 0, 0, 0, time.UTC).UnixNano(), MaxSteps: 4000, MaxClock: 80 * time.Second}
	cfg.GenesisTs = uint64(cfg.Epoch) - uint64(cfg.TPB)
	cfg.K = vnet.Knobs{Sync: true, SlowNode: -1, ResetDelayNode: -1}
	cfg.Roles = make([]vnet.Role, 4)
	c := vnet.NewCluster(cfg, mons...)
	for i := 3; i >= 0; i-- {
		c.Nodes[i].Start() // height 4: validator 0 is the primary and proposes at Start
	}
	deliverWhere(c, func(e *vnet.Envelope) bool { return e.P.T == dbft.PrepareRequestType && (e.To == 1 || e.To == 2) })
	deliverWhere(c, func(e *vnet.Envelope) bool { return e.P.T == dbft.PrepareResponseType && (e.To == 1 || e.To == 2) })
	// validators 1 and 2 have committed; everything else in flight is lost with the crash
	c.Inflight = nil
	c.NoteFault()
	c.Nodes[0].Restart()
	c.Run(nil)
	return &Built{C: c, Spec: Spec{Profile: cfg.Profile, Idx: -1, Seed: cfg.Seed}}
}

// DirectedAMEVEarlyCommit: regression scenario of the repaired anti-MEV defect
// (DESIGN.md §5.14). A garbage Commit of the Byzantine primary reaches
// validator 3 first; validator 3 then processes the PreBlock on the
// PreCommits of the others before it has seen M preparations (so before its
// own PreCommit), and receives the two genuine Commits.
func DirectedAMEVEarlyCommit(mons ...vnet.Monitor) *Built {
	c, byz := directedCluster("directed-amev-early-commit", 0, mons)
	a := c.Adv
	h := c.Cfg.BaseHeight + 1
	tip := c.Nodes[1].TipHash()
	ts := c.Nodes[1].TipTs() + uint64(time.Second)
	mk := func(t dbft.MessageType, body any) *vnet.Payload {
		return &vnet.Payload{T: t, Hgt: h, View: 0, Idx: 0, Body: body}
	}
	garbage := mk(dbft.CommitType, &vnet.CommitB{Sig: make([]byte, 64)})
	a.Inject(byz, garbage, []int{3}, "garbage commit before anything else")
	deliverWhere(c, func(e *vnet.Envelope) bool { return e.P == garbage })
	p := mk(dbft.PrepareRequestType, &vnet.PrepReq{Ts: ts, Nc: 9, Hashes: []vnet.H{}})
	a.Inject(byz, p, []int{1, 2, 3}, "proposal")
	deliverWhere(c, func(e *vnet.Envelope) bool { return e.P == p })
	// responses circulate among validators 1 and 2 only
	deliverWhere(c, func(e *vnet.Envelope) bool { return e.P.T == dbft.PrepareResponseType && (e.To == 1 || e.To == 2) })
	pc := mk(dbft.PreCommitType, &vnet.PreCommitB{D: c.PreBlockFor(p, tip).DataWith(byz.Key)})
	a.Inject(byz, pc, []int{1, 2, 3}, "valid pre-commit of the primary")
	deliverWhere(c, func(e *vnet.Envelope) bool { return e.P.T == dbft.PreCommitType && (e.To == 1 || e.To == 2) })
	// validator 3: three pre-commits (1, 2, primary) before it has M preparations, then the two commits
	deliverWhere(c, func(e *vnet.Envelope) bool { return e.P.T == dbft.PreCommitType && e.To == 3 })
	deliverWhere(c, func(e *vnet.Envelope) bool { return e.P.T == dbft.CommitType && e.To == 3 })
	deliverWhere(c, func(e *vnet.Envelope) bool { return e.To != 0 })
	finish(c)
	return &Built{C: c, Spec: Spec{Profile: "directed-amev-early-commit", Idx: -1, Seed: c.Cfg.Seed}}
}

// SplitPrimary: seeded variations of the equivocating-primary attack. The
// Byzantine primary (plus F-1 Byzantine helpers) gets proposal P1 accepted by
// M-F honest validators and then shows the remaining honest validators
// ("victims") proposal P2 together with everything an attacker can produce
// for it - its own valid (pre)commits and responses - interleaved in a seeded
// random order with the genuine commits for P1 and with the delivery of a
// transaction the victims miss. With a correct library the victims can never
// collect M verifying commits for P2.
func SplitPrimary(rng *rand.Rand, mons ...vnet.Monitor) *Built {
	n := []int{4, 4, 7}[rng.Intn(3)]
	f := (n - 1) / 3
	m := n - f
	cfg := vnet.Config{Seed: rng.Int63(), Profile: "split-primary", N: n, Heights: 1, AMEV: -1, TPB: time.Second, TxPerBlock: 3,
		Epoch: time.Date(2031, 5, 1, 0, 0, 0, 0, time.UTC).UnixNano(), MaxSteps: 2000}
	if rng.Intn(2) == 0 {
		cfg.AMEV = 0
	}
	cfg.BaseHeight = uint32(2*n - 1) // height 2n: validator 0 is the primary of view 0
	cfg.GenesisTs = uint64(cfg.Epoch) - uint64(cfg.TPB)
	cfg.K.SlowNode, cfg.K.ResetDelayNode = -1, -1
	cfg.Roles = make([]vnet.Role, n)
	for i := 0; i < f; i++ {
		cfg.Roles[i] = vnet.Byzantine // 0 (primary) .. f-1
	}
	c := vnet.NewCluster(cfg, mons...)
	a := vnet.NewAdversary(c)
	h := cfg.BaseHeight + 1
	var setA, setB []int
	for i := f; i < n; i++ {
		if len(setA) < m-f {
			setA = append(setA, i)
		} else {
			setB = append(setB, i)
		}
	}
	for i := f; i < n; i++ {
		c.Nodes[i].Start()
	}
	tip := c.Nodes[f].TipHash()
	ts := c.Nodes[f].TipTs() + uint64(time.Second)
	mk := func(t dbft.MessageType, idx int, body any) *vnet.Payload {
		return &vnet.Payload{T: t, Hgt: h, View: 0, Idx: uint16(idx), Body: body}
	}
	in := func(l []int, x int) bool {
		for _, y := range l {
			if y == x {
				return true
			}
		}
		return false
	}
	// a transaction only the victims miss
	var p2hashes = []vnet.H{}
	var missing *vnet.Tx
	if rng.Intn(2) == 0 {
		missing = c.NewTx(false)
		p2hashes = append(p2hashes, missing.Hash())
	}
	p1 := mk(dbft.PrepareRequestType, 0, &vnet.PrepReq{Ts: ts, Nc: 1, Hashes: []vnet.H{}})
	p2 := mk(dbft.PrepareRequestType, 0, &vnet.PrepReq{Ts: ts, Nc: 2, Hashes: p2hashes})
	byz := a.Byz
	// phase 1: P1 is decided by set A
	a.Inject(byz[0], p1, setA, "proposal P1")
	for _, b := range byz[1:] {
		a.Inject(b, mk(dbft.PrepareResponseType, b.ID, &vnet.PrepResp{Prep: p1.Hash()}), setA, "response for P1")
	}
	if cfg.AMEV >= 0 {
		for _, b := range byz {
			a.Inject(b, mk(dbft.PreCommitType, b.ID, &vnet.PreCommitB{D: c.PreBlockFor(p1, tip).DataWith(b.Key)}), setA, "pre-commit for P1")
		}
	}
	for _, b := range byz {
		a.Inject(b, mk(dbft.CommitType, b.ID, &vnet.CommitB{Sig: c.BlockFor(p1, tip).SignWith(b.Key)}), setA, "commit for P1")
	}
	for k := 0; k < 6; k++ { // everything addressed to A, to quiescence
		deliverWhere(c, func(e *vnet.Envelope) bool { return in(setA, e.To) })
	}
	// phase 2: the victims get, in a seeded order, the genuine traffic of A and the adversary's material for P2
	a.Inject(byz[0], p2, setB, "proposal P2")
	for _, b := range byz[1:] {
		a.Inject(b, mk(dbft.PrepareResponseType, b.ID, &vnet.PrepResp{Prep: p2.Hash()}), setB, "response for P2")
	}
	if cfg.AMEV >= 0 {
		for _, b := range byz {
			a.Inject(b, mk(dbft.PreCommitType, b.ID, &vnet.PreCommitB{D: c.PreBlockFor(p2, tip).DataWith(b.Key)}), setB, "pre-commit for P2")
		}
	}
	for _, b := range byz {
		a.Inject(b, mk(dbft.CommitType, b.ID, &vnet.CommitB{Sig: c.BlockFor(p2, tip).SignWith(b.Key)}), setB, "commit for P2")
	}
	supplied := missing == nil
	for steps := 0; steps < 400; steps++ {
		var cand []int
		for i, e := range c.Inflight {
			if in(setB, e.To) {
				cand = append(cand, i)
			}
		}
		if !supplied && (len(cand) == 0 || rng.Intn(6) == 0) {
			// the application obtains the missing transaction for one victim (or all of them at the end)
			for _, v := range setB {
				if nd := c.Nodes[v]; nd.Live() && nd.Requested[missing.Hash()] {
					nd.SupplyTx(missing)
					if len(cand) != 0 {
						break
					}
				}
			}
			if len(cand) == 0 {
				supplied = true
			}
			continue
		}
		if len(cand) == 0 {
			break
		}
		i := cand[rng.Intn(len(cand))]
		e := c.Inflight[i]
		c.Inflight = append(c.Inflight[:i], c.Inflight[i+1:]...)
		c.Deliver(e)
	}
	finish(c)
	return &Built{C: c, Spec: Spec{Profile: "split-primary", Idx: -1, Seed: cfg.Seed}}
}

// DirectedLateEvents: quiescence after a decision the node did not vote for. A backup x lacks a
// transaction of the proposal; the transaction reaches its pool by gossip, a timeout takes the
// recovery-request path (re-scan of the pool), x's verifier rejects the completed block and x asks
// for a view change; then the commits of the others decide the height at x. Until Reset nothing may
// make x act again: neither the application's late OnTransaction for the transaction x had
// requested, nor timeouts, new-transaction notifications or retransmitted payloads.
func DirectedLateEvents(rng *rand.Rand, mons ...vnet.Monitor) *Built {
	n, amev := 4, int64(-1)
	if rng != nil {
		n = []int{4, 5, 7}[rng.Intn(3)]
		if rng.Intn(3) == 0 {
			amev = 0
		}
	}
	cfg := vnet.Config{Seed: 778, Profile: "directed-late-events", N: n, Heights: 1, AMEV: amev, TPB: time.Second, TxPerBlock: 4,
		Epoch: time.Date(2031, 5, 1, 0, 0, 0, 0, time.UTC).UnixNano(), MaxSteps: 1000}
	if rng != nil {
		cfg.Seed = rng.Int63()
		if rng.Intn(3) == 0 {
			cfg.MaxTPB = 3 * cfg.TPB
		}
	}
	cfg.BaseHeight = uint32(2*n - 1) // height 2n: primary of view 0 is validator 0
	cfg.GenesisTs = uint64(cfg.Epoch) - uint64(cfg.TPB)
	cfg.K.SlowNode, cfg.K.ResetDelayNode = -1, -1
	cfg.Roles = make([]vnet.Role, n)
	c := vnet.NewCluster(cfg, mons...)
	h := cfg.BaseHeight + 1
	x := c.Nodes[1]
	var txs []*vnet.Tx
	k := 1
	if rng != nil {
		k = 1 + rng.Intn(3)
	}
	for i := 0; i < k; i++ {
		txs = append(txs, c.NewTx(false))
	}
	for _, nd := range c.Nodes {
		if nd != x {
			for _, t := range txs {
				nd.Pool[t.Hash()] = t
			}
		}
	}
	x.RejectBlocks[[2]uint32{h, 0}] = true
	for i := n - 1; i >= 0; i-- {
		c.Nodes[i].Start() // the primary starts last and proposes the transactions
	}
	deliverWhere(c, func(e *vnet.Envelope) bool { return e.P.T == dbft.PrepareRequestType }) // x requests the transactions
	// the others finish the height among themselves
	for i := 0; i < 6; i++ {
		deliverWhere(c, func(e *vnet.Envelope) bool { return e.To != x.ID })
	}
	// the transactions reach x's pool by gossip; no OnTransaction yet
	for _, t := range txs {
		x.Pool[t.Hash()] = t
	}
	x.Timeout(h, 0, "scripted") // recovery-request path: re-scan, block rejected, change view requested
	// now the (pre)commits of the others decide the height at x
	deliverWhere(c, func(e *vnet.Envelope) bool { return e.To == x.ID && e.P.T != dbft.PrepareResponseType })
	deliverWhere(c, func(e *vnet.Envelope) bool { return e.To == x.ID })
	// late events before the application calls Reset
	late := []func(){
		func() {
			for _, t := range txs {
				x.SupplyTx(t)
			}
		},
		func() { x.Timeout(h, 0, "late") },
		func() { x.NewTxNotify() },
		func() {
			for _, p := range c.GenList {
				if p.Hgt == h && (p.T == dbft.PrepareRequestType || p.T == dbft.CommitType) {
					x.Receive(p)
				}
			}
		},
	}
	order := []int{0, 1, 2, 3}
	if rng != nil {
		rng.Shuffle(len(order), func(i, j int) { order[i], order[j] = order[j], order[i] })
	}
	for _, i := range order {
		if x.Live() {
			late[i]()
		}
	}
	finish(c)
	return &Built{C: c, Spec: Spec{Profile: cfg.Profile, Idx: -1, Seed: cfg.Seed}}
}

// DirectedParkedPreCommits: regression scenario of the repaired defect of DESIGN §5.16. Anti-MEV on,
// Byzantine primary 0. Validator 3 lacks a transaction of the proposal; while it waits, a garbage
// pre-commit of the primary is parked; the transaction arrives, validator 3's verifier rejects the
// pre-block (it asks for a view change); then the genuine pre-commits of validators 1 and 2 arrive.
// The parked garbage must have been verified and dropped when the transactions were complete,
// whatever the verdict on the block was: validator 3 holds two verifying pre-commits, not M = 3.
func DirectedParkedPreCommits(mons ...vnet.Monitor) *Built {
	c, byz := directedCluster("directed-parked-precommits", 0, mons)
	a := c.Adv
	h := c.Cfg.BaseHeight + 1
	ts := c.Nodes[1].TipTs() + uint64(time.Second)
	t := c.NewTx(false)
	c.Nodes[1].Pool[t.Hash()] = t
	c.Nodes[2].Pool[t.Hash()] = t
	c.Nodes[3].RejectBlocks[[2]uint32{h, 0}] = true
	mk := func(mt dbft.MessageType, body any) *vnet.Payload {
		return &vnet.Payload{T: mt, Hgt: h, View: 0, Idx: 0, Body: body}
	}
	p := mk(dbft.PrepareRequestType, &vnet.PrepReq{Ts: ts, Nc: 11, Hashes: []vnet.H{t.Hash()}})
	a.Inject(byz, p, []int{1, 2, 3}, "proposal with a transaction validator 3 lacks")
	deliverWhere(c, func(e *vnet.Envelope) bool { return e.P == p })
	garbage := mk(dbft.PreCommitType, &vnet.PreCommitB{D: make([]byte, 16)})
	a.Inject(byz, garbage, []int{3}, "garbage pre-commit while the transaction is missing")
	deliverWhere(c, func(e *vnet.Envelope) bool { return e.P == garbage })
	c.Nodes[3].SupplyTx(t) // completes the proposal; the verifier rejects the pre-block
	// validators 1 and 2 prepare and pre-commit among themselves, then their pre-commits reach validator 3
	deliverWhere(c, func(e *vnet.Envelope) bool { return e.P.T == dbft.PrepareResponseType && (e.To == 1 || e.To == 2) })
	deliverWhere(c, func(e *vnet.Envelope) bool { return e.P.T == dbft.PreCommitType && e.To == 3 })
	deliverWhere(c, func(e *vnet.Envelope) bool { return e.To != 0 })
	finish(c)
	return &Built{C: c, Spec: Spec{Profile: "directed-parked-precommits", Idx: -1, Seed: c.Cfg.Seed}}
}

// DirectedWatchFlagOff: the recorded C10 finding (DESIGN 5.19). Validator 1 starts with its
// watch-only flag set (the library arms no timer for it), the application then switches the flag
// off and the primary's proposal arrives: validator 1 answers it, i.e. takes an active part, and
// returns without any timer armed for its epoch.
func DirectedWatchFlagOff(mons ...vnet.Monitor) *Built {
	cfg := vnet.Config{Seed: 779, Profile: "directed-watch-flag-off", N: 4, BaseHeight: 7, Heights: 1, AMEV: -1, TPB: time.Second,
		Epoch: time.Date(2031, 5, 1, 0, 0, 0, 0, time.UTC).UnixNano(), MaxSteps: 1000}
	cfg.GenesisTs = uint64(cfg.Epoch) - uint64(cfg.TPB)
	cfg.K.SlowNode, cfg.K.ResetDelayNode = -1, -1
	cfg.Roles = make([]vnet.Role, 4)
	cfg.WatchFlag = []bool{false, true, false, false}
	c := vnet.NewCluster(cfg, mons...)
	for i := 3; i >= 0; i-- {
		c.Nodes[i].Start() // height 8: validator 0 is the primary, starts last and proposes
	}
	c.Nodes[1].Watch = false
	deliverWhere(c, func(e *vnet.Envelope) bool { return e.To == 1 && e.P.T == dbft.PrepareRequestType })
	finish(c)
	return &Built{C: c, Spec: Spec{Profile: cfg.Profile, Idx: -1, Seed: cfg.Seed}}
}

// DirectedCommitThenWatch: the recorded C03 finding (DESIGN 5.19). Validator 1 commits in view 0, the
// application then sets its watch-only flag; the three others time out and ask for view 1. The commit
// lock is conditioned on !WatchOnly(), so validator 1 follows the view change although it has
// broadcast a commit at this height.
func DirectedCommitThenWatch(mons ...vnet.Monitor) *Built {
	cfg := vnet.Config{Seed: 780, Profile: "directed-commit-then-watch", N: 4, BaseHeight: 7, Heights: 1, AMEV: -1, TPB: time.Second,
		Epoch: time.Date(2031, 5, 1, 0, 0, 0, 0, time.UTC).UnixNano(), MaxSteps: 1000}
	cfg.GenesisTs = uint64(cfg.Epoch) - uint64(cfg.TPB)
	cfg.K.SlowNode, cfg.K.ResetDelayNode = -1, -1
	cfg.Roles = make([]vnet.Role, 4)
	c := vnet.NewCluster(cfg, mons...)
	h := cfg.BaseHeight + 1
	for i := 3; i >= 0; i-- {
		c.Nodes[i].Start() // height 8: validator 0 is the primary, starts last and proposes
	}
	x := c.Nodes[1]
	// the proposal reaches everybody, the responses reach validator 1 only: it alone commits
	deliverWhere(c, func(e *vnet.Envelope) bool { return e.P.T == dbft.PrepareRequestType })
	deliverWhere(c, func(e *vnet.Envelope) bool { return e.P.T == dbft.PrepareResponseType && e.To == x.ID })
	x.Watch = true
	for _, id := range []int{0, 2, 3} {
		c.Nodes[id].Timeout(h, 0, "scripted") // asks for recovery: nobody but the primary has been heard yet
	}
	deliverWhere(c, func(e *vnet.Envelope) bool { return e.P.T == dbft.RecoveryRequestType && e.To != x.ID })
	for _, id := range []int{0, 2, 3} {
		c.Nodes[id].Timeout(h, 0, "scripted") // now a change view request
	}
	deliverWhere(c, func(e *vnet.Envelope) bool { return e.P.T == dbft.ChangeViewType && e.To == x.ID })
	// the others change view as well; the flag is switched off again; the primary of view 1 (validator 3)
	// proposes and validator 1 collects M preparations in view 1: it must not sign a second block,
	// whatever it sends now is its original commit
	deliverWhere(c, func(e *vnet.Envelope) bool { return e.P.T == dbft.ChangeViewType })
	x.Watch = false
	p3 := c.Nodes[3]
	if dl, pending := p3.Timer.Deadline(); pending && p3.D.ViewNumber == 1 {
		c.Clock = dl
		p3.FireTimer()
	}
	// ... the responses overtake the proposal on their way to validator 1, so that the proposal completes its M preparations
	deliverWhere(c, func(e *vnet.Envelope) bool { return e.P.T == dbft.PrepareRequestType && e.P.View == 1 && e.To != x.ID })
	deliverWhere(c, func(e *vnet.Envelope) bool { return e.P.T == dbft.PrepareResponseType && e.P.View == 1 })
	deliverWhere(c, func(e *vnet.Envelope) bool { return e.P.T == dbft.PrepareRequestType && e.P.View == 1 })
	deliverWhere(c, func(e *vnet.Envelope) bool { return e.P.T == dbft.PrepareResponseType && e.P.View == 1 })
	deliverWhere(c, func(e *vnet.Envelope) bool { return e.P.T == dbft.CommitType })
	finish(c)
	return &Built{C: c, Spec: Spec{Profile: cfg.Profile, Idx: -1, Seed: cfg.Seed}}
}

// DirectedLoneCommitter: a scripted partition. k <= F validators - the primaries of views 1..k of the
// height - receive all preparations of view 0 and commit, then are cut off before their commits
// leave; the preparations of the others are lost. The others ask for recovery, then for view 1, and
// enter it. The partition heals (GST). The committed validators stay locked in view 0, so views
// 1..k have no proposer: the others have to learn about the commits from recovery messages, keep
// asking for view changes and decide in view k+1; the locked validators follow from the commits or
// the ledger.
func DirectedLoneCommitter(rng *rand.Rand, mons ...vnet.Monitor) *Built {
	n, k := 4, 1
	amev := int64(-1)
	base := uint32(3)
	if rng != nil {
		n = []int{4, 5, 7, 7, 10}[rng.Intn(5)]
		k = 1 + rng.Intn((n-1)/3)
		base = uint32(1 + rng.Intn(50))
		if rng.Intn(4) == 0 {
			amev = 0
		}
	}
	cfg := vnet.Config{Seed: 993, Profile: "directed-lone-committer", N: n, BaseHeight: base, Heights: 2, AMEV: amev, TPB: time.Second,
		Epoch: time.Date(2031, 5, 1, 0, 0, 0, 0, time.UTC).UnixNano(), MaxSteps: 60000}
	if rng != nil {
		cfg.Seed = rng.Int63()
	}
	cfg.GenesisTs = uint64(cfg.Epoch) - uint64(cfg.TPB)
	cfg.K = vnet.Knobs{Sync: true, PSyncLedger: 0.01, SlowNode: -1, ResetDelayNode: -1}
	cfg.Roles = make([]vnet.Role, n)
	c := vnet.NewCluster(cfg, mons...)
	h := base + 1
	prim := func(v int) int { return int(((int64(h)-int64(v))%int64(n) + int64(n)) % int64(n)) }
	locked := map[int]bool{}
	for v := 1; v <= k; v++ {
		locked[prim(v)] = true
	}
	for i := 0; i < n; i++ {
		if i != prim(0) {
			c.Nodes[i].Start()
		}
	}
	c.Nodes[prim(0)].Start() // proposes
	if dl, pending := c.Nodes[prim(0)].Timer.Deadline(); pending && !c.Nodes[prim(0)].D.RequestSentOrReceived() {
		c.Clock = dl
		c.Nodes[prim(0)].FireTimer()
	}
	deliverWhere(c, func(e *vnet.Envelope) bool { return e.P.T == dbft.PrepareRequestType })
	for i := 0; i < 4; i++ { // responses (and, with anti-MEV, pre-commits) reach the future committers only
		deliverWhere(c, func(e *vnet.Envelope) bool { return locked[e.To] && (e.P.T == dbft.PrepareResponseType || e.P.T == dbft.PreCommitType && locked[e.From]) })
	}
	c.Inflight = nil // the cut: nothing else gets through
	set := []int{}
	for id := range locked {
		set = append(set, id)
	}
	c.SetCut(set)
	c.NoteFault()
	for round := 0; round < 2; round++ {
		for i := 0; i < n; i++ {
			if !locked[i] {
				c.Nodes[i].Timeout(h, 0, "scripted")
			}
		}
		for i := 0; i < 3; i++ {
			deliverWhere(c, func(e *vnet.Envelope) bool { return !locked[e.To] })
		}
	}
	c.SetCut(nil)
	c.NoteFault()
	c.Run(nil)
	return &Built{C: c, Spec: Spec{Profile: cfg.Profile, Idx: -1, Seed: cfg.Seed}}
}

// DirectedCommitSplit: the recorded C09 finding "stall:commit-split" (DESIGN 5.20), four honest
// validators, no loss, only delays and timeouts. Height 3: validator 3 proposes. All backups first
// hear from each other (a round of recovery requests), then the proposal reaches validator 0 only and
// the three backups time out and ask for view 1. Validators 0 and 2 collect the three requests and
// enter view 1. The proposal and validator 0's response now reach validator 1, which completes M
// preparations and commits in view 0 (asking for a view change does not stop a node from committing);
// the primary does the same. Two validators are commit-locked in view 0, two are in view 1: neither
// view can ever reach M = 3 commits, although the network is synchronous from here on.
func DirectedCommitSplit(mons ...vnet.Monitor) *Built {
	cfg := vnet.Config{Seed: 994, Profile: "directed-commit-split", N: 4, BaseHeight: 2, Heights: 1, AMEV: -1, TPB: time.Second,
		Epoch: time.Date(2031, 5, 1, 0, 0, 0, 0, time.UTC).UnixNano(), MaxSteps: 3000, MaxClock: 400 * time.Second}
	cfg.GenesisTs = uint64(cfg.Epoch) - uint64(cfg.TPB)
	cfg.K = vnet.Knobs{Sync: true, SlowNode: -1, ResetDelayNode: -1}
	cfg.Roles = make([]vnet.Role, 4)
	c := vnet.NewCluster(cfg, mons...)
	h := cfg.BaseHeight + 1
	for _, id := range []int{0, 1, 2, 3} {
		c.Nodes[id].Start() // validator 3 is the primary of (3, 0) and proposes at Start
	}
	for _, id := range []int{0, 1, 2} {
		c.Nodes[id].Timeout(h, 0, "scripted") // nobody heard yet: recovery requests
	}
	deliverWhere(c, func(e *vnet.Envelope) bool { return e.P.T == dbft.RecoveryRequestType })
	deliverWhere(c, func(e *vnet.Envelope) bool { return e.P.T == dbft.PrepareRequestType && e.To == 0 })
	for _, id := range []int{1, 0, 2} {
		c.Nodes[id].Timeout(h, 0, "scripted") // change view requests
	}
	deliverWhere(c, func(e *vnet.Envelope) bool { return e.P.T == dbft.ChangeViewType && (e.To == 0 || e.To == 2) })
	deliverWhere(c, func(e *vnet.Envelope) bool { return e.To == 1 && e.P.T == dbft.PrepareRequestType })
	deliverWhere(c, func(e *vnet.Envelope) bool { return e.To == 1 && e.P.T == dbft.PrepareResponseType && e.P.View == 0 })
	deliverWhere(c, func(e *vnet.Envelope) bool { return e.To == 3 && e.P.T == dbft.PrepareResponseType && e.P.View == 0 })
	c.NoteFault() // GST: from here on everything is delivered in time
	c.Run(nil)
	return &Built{C: c, Spec: Spec{Profile: cfg.Profile, Idx: -1, Seed: cfg.Seed}}
}

// DirectedPrimaryWaitsAfterRecovery: the recorded C09 finding of DESIGN 5.21. Seven validators, the
// primary of view 0 is silent from the start, everything else is honest and the network is
// synchronous. The five other backups collect the change view requests and enter view 1; the
// primary of view 1 learns about the view change from a recovery message instead (its copies of the
// requests are a little late - still long before any timer expires). A primary that enters a view
// while it processes a recovery message arms the same doubled timeout as a backup instead of
// proposing at once, so the backups, who entered the view earlier, time out first, and as they have
// heard from each other in view 1 they ask for view 2 straight away: view 1 is wasted although its
// primary is alive, and the height is decided in view 2 with one silent validator.
func DirectedPrimaryWaitsAfterRecovery(mons ...vnet.Monitor) *Built {
	const n = 7
	cfg := vnet.Config{Seed: 995, Profile: "directed-primary-waits-after-recovery", N: n, BaseHeight: 6, Heights: 1, AMEV: -1, TPB: time.Second,
		Epoch: time.Date(2031, 5, 1, 0, 0, 0, 0, time.UTC).UnixNano(), MaxSteps: 20000, MaxClock: 600 * time.Second}
	cfg.GenesisTs = uint64(cfg.Epoch) - uint64(cfg.TPB)
	cfg.K = vnet.Knobs{Sync: true, SlowNode: -1, ResetDelayNode: -1}
	cfg.Roles = make([]vnet.Role, n)
	cfg.Roles[0] = vnet.Silent // height 7: validator 0 is the primary of view 0, validator 6 of view 1
	c := vnet.NewCluster(cfg, mons...)
	_ = cfg.BaseHeight
	a := c.Nodes[6]
	isB := func(id int) bool { return id >= 1 && id <= 5 }
	for id := 1; id < n; id++ {
		c.Nodes[id].Start()
	}
	fireAll := func() {
		var dl int64 = -1
		for id := 1; id < n; id++ {
			if d, p := c.Nodes[id].Timer.Deadline(); p && (dl < 0 || d < dl) {
				dl = d
			}
		}
		if dl > c.Clock {
			c.Clock = dl
		}
		for id := 1; id < n; id++ {
			if d, p := c.Nodes[id].Timer.Deadline(); p && d <= c.Clock {
				c.Nodes[id].FireTimer()
			}
		}
	}
	fireAll() // nobody heard yet: recovery requests
	for i := 0; i < 3; i++ {
		deliverWhere(c, func(e *vnet.Envelope) bool { return true })
	}
	fireAll() // change view requests
	// the requests reach the five backups at once, the next primary a little later
	deliverWhere(c, func(e *vnet.Envelope) bool { return e.P.T == dbft.ChangeViewType && isB(e.To) })
	// duplicates of the (now old) requests reach the backups once more; those in the responder window answer with
	// view-1 recovery messages, which lets the backups hear each other in view 1
	for id := 1; id <= 5; id++ {
		for _, p := range c.GenList {
			if p.T == dbft.ChangeViewType && p.Hgt == cfg.BaseHeight+1 && int(p.Idx) != id {
				c.Nodes[id].Receive(p)
			}
		}
	}
	for i := 0; i < 3; i++ {
		deliverWhere(c, func(e *vnet.Envelope) bool { return isB(e.To) })
	}
	c.Clock += int64(cfg.TPB) / 10
	deliverWhere(c, func(e *vnet.Envelope) bool { return e.To == a.ID && e.P.T == dbft.RecoveryMessageType && e.P.View == 1 })
	c.NoteFault()
	c.Run(nil)
	return &Built{C: c, Spec: Spec{Profile: cfg.Profile, Idx: -1, Seed: cfg.Seed}}
}
