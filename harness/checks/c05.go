package checks

import (
	"fmt"
	"math/rand"

	"github.com/nspcc-dev/dbft"
	"github.com/nspcc-dev/dbft/verifh/ev"
	"github.com/nspcc-dev/dbft/verifh/mon"
	"github.com/nspcc-dev/dbft/verifh/vnet"
)

func C05(r *ev.Run) {
	r.SetRule(ruleRuns + "the run contains a decision followed by further API calls before Reset, or a re-initialisation that replayed cached payloads, or a validator-set change")
	plan := []Plan{{"valset", 1200, 25000}, {"async-benign", 900, 20000}, {"byz", 500, 10000}, {"missing-tx", 300, 6000}, {"sync-perm", 1000, 20000}, {"long-chain", 20, 100}}
	if Only < 0 {
		// scripted scenario (and seeded variations) of a decision the node did not vote for, followed by
		// every kind of late event before Reset
		rng := rand.New(rand.NewSource(r.Seed + 5))
		for i := 0; i < r.Pick(200, 4000); i++ {
			m := mon.NewOnce()
			var b *Built
			if i == 0 {
				b = DirectedLateEvents(nil, m)
			} else {
				b = DirectedLateEvents(rng, m)
			}
			Report(r, b, m.Viols)
			Account(r, b, m.Cnt)
			if len(b.C.Nodes[1].Accepted) > 0 {
				r.Count("late-event-scenarios-decided-without-own-vote", 1)
				r.Distinct(mon.AbstractTrace(b.C))
			}
		}
	}
	protoCheck(r, plan, func() (vnet.Monitor, func() ([]mon.V, map[string]int64)) {
		m := mon.NewOnce()
		return m, func() ([]mon.V, map[string]int64) { return m.Viols, m.Cnt }
	}, func(b *Built, cnt map[string]int64) bool {
		return cnt["quiescent-api-returns-checked"] > 0 || b.C.Cfg.ValSchedule != nil
	})
	r.Floor("decisions", 10000)
	r.Floor("reinitialisations-audited", 10000)
	r.Floor("returns-from-reinitialisation-audited", 10000)
	r.Floor("quiescent-api-returns-checked", 1500)
	r.Floor("recovery-replies-after-decision", 4)
	r.Floor("net:synced-blocks", 100)
	r.Floor("future-payloads-checked", 2000)
	r.Floor("future-payloads-while-decided", 200)
	r.Floor("runs:valset", 100)
	r.Floor("late-event-scenarios-decided-without-own-vote", 100)
}

func C12(r *ev.Run) {
	r.SetRule(ruleRuns + "a backup was given every transaction it had requested for a stored proposal (an obligation completed), or a view change happened inside an OnTransaction call")
	plan := []Plan{{"missing-tx", 4000, 150000}, {"async-benign", 500, 20000}, {"byz", 500, 20000}}
	if Only < 0 {
		// directed regression scenario of the repaired stale-index defect (DESIGN.md §5.5)
		// and seeded variations of its shape (N, transaction counts, supply orders, anti-MEV)
		rng := rand.New(rand.NewSource(r.Seed + 12))
		for i := 0; i < r.Pick(300, 5000); i++ {
			m := mon.NewOblig()
			var b *Built
			if i == 0 {
				b = DirectedNestedTx(nil, m)
				SampleRun(r, b, "directed scenario "+b.Spec.Profile)
			} else {
				b = DirectedNestedTx(rng, m)
			}
			Report(r, b, m.Viols)
			Account(r, b, m.Cnt)
			if m.Cnt["requests-issued-for-new-view-inside-OnTransaction"] > 0 {
				r.Distinct(mon.AbstractTrace(b.C))
			}
		}
	}
	protoCheck(r, plan, func() (vnet.Monitor, func() ([]mon.V, map[string]int64)) {
		m := mon.NewOblig()
		return m, func() ([]mon.V, map[string]int64) { return m.Viols, m.Cnt }
	}, func(b *Built, cnt map[string]int64) bool {
		return cnt["obligations-completed"]+cnt["view-changes-inside-OnTransaction"] > 0
	})
	r.Floor("request-tx-calls", 2000)
	r.Floor("requested-transactions-supplied", 2000)
	r.Floor("obligations-completed", 1000)
	r.Floor("view-changes-inside-OnTransaction", 20)
	r.Floor("requests-issued-for-new-view-inside-OnTransaction", 100)
}

// probes builds one inadmissible / repeated input for node n in its current state.
func makeProbe(c *vnet.Cluster, n *vnet.Node) (mon.Probe, bool) {
	d := n.D
	rng := c.Rng
	nv := len(d.Validators)
	h, v := d.BlockIndex, d.ViewNumber
	prim := int(((int64(h)-int64(v))%int64(nv) + int64(nv)) % int64(nv))
	amev := c.Cfg.AMEV >= 0 && uint32(c.Cfg.AMEV) <= h
	mk := func(t dbft.MessageType, hh uint32, vv byte, idx int, body any) *vnet.Payload {
		return &vnet.Payload{T: t, Hgt: hh, View: vv, Idx: uint16(idx), Body: body, Forged: true, Origin: -1}
	}
	bodies := func(t dbft.MessageType, vv byte) any {
		switch t {
		case dbft.PrepareRequestType:
			return &vnet.PrepReq{Ts: n.TipTs() + 1000000, Nc: rng.Uint64(), Hashes: []vnet.H{}}
		case dbft.PrepareResponseType:
			var x vnet.H
			rng.Read(x[:])
			return &vnet.PrepResp{Prep: x}
		case dbft.ChangeViewType:
			return &vnet.ChView{NewView: vv + 1, Ts: 1}
		case dbft.CommitType:
			return &vnet.CommitB{Sig: make([]byte, 64)}
		case dbft.PreCommitType:
			return &vnet.PreCommitB{D: make([]byte, 16)}
		case dbft.RecoveryRequestType:
			return &vnet.RecReq{Ts: 1}
		default:
			return &vnet.RecMsg{}
		}
	}
	types := []dbft.MessageType{dbft.PrepareRequestType, dbft.PrepareResponseType, dbft.ChangeViewType, dbft.CommitType, dbft.PreCommitType, dbft.RecoveryRequestType, dbft.RecoveryMessageType}
	recv := func(p *vnet.Payload) func() { return func() { n.Receive(p) } }
	other := func() int { // a validator index that is neither the primary nor n itself
		for k := 0; k < 8; k++ {
			i := rng.Intn(nv)
			if i != prim && i != d.MyIndex {
				return i
			}
		}
		return -1
	}
	switch rng.Intn(10) {
	case 9:
		// a transaction the node asked for in an earlier view of this height, not part of the current proposal
		if v == 0 {
			return mon.Probe{}, false
		}
		cur := map[vnet.H]bool{}
		for _, x := range d.TransactionHashes {
			cur[x] = true
		}
		var cand []vnet.H
		for _, e := range c.Trace {
			if e.Node == n.ID && e.Kind == vnet.KRequestTx && e.H == h && e.V < v {
				for _, x := range e.Hs {
					if !cur[x] && c.Universe[x] != nil {
						cand = append(cand, x)
					}
				}
			}
		}
		if len(cand) == 0 {
			return mon.Probe{}, false
		}
		t := c.Universe[cand[rng.Intn(len(cand))]]
		return mon.Probe{Class: "transaction-requested-in-earlier-view", Do: func() { n.SupplyTx(t) }}, true
	case 0:
		t := types[rng.Intn(len(types))]
		return mon.Probe{Class: "index-out-of-range", Do: recv(mk(t, h, v, nv+rng.Intn(3), bodies(t, v)))}, true
	case 1:
		if h == 0 {
			return mon.Probe{}, false
		}
		// past height: a genuine old payload if there is one, else a forged one
		var old []*vnet.Payload
		for _, p := range c.GenList {
			if p.Hgt < h {
				old = append(old, p)
			}
		}
		if len(old) > 0 && rng.Intn(2) == 0 {
			return mon.Probe{Class: "past-height", Do: recv(old[rng.Intn(len(old))])}, true
		}
		t := types[rng.Intn(len(types))]
		ph := h - 1
		if ph > 0 && rng.Intn(2) == 0 {
			ph -= 1 + uint32(rng.Intn(int(min(ph, 3))))
		}
		return mon.Probe{Class: "past-height", Do: recv(mk(t, ph, byte(rng.Intn(3)), rng.Intn(nv), bodies(t, v)))}, true
	case 2:
		i := other()
		if i < 0 {
			return mon.Probe{}, false
		}
		return mon.Probe{Class: "proposal-from-non-primary", Do: recv(mk(dbft.PrepareRequestType, h, v, i, bodies(dbft.PrepareRequestType, v)))}, true
	case 3:
		if v == 0 {
			return mon.Probe{}, false
		}
		lv := byte(rng.Intn(int(v)))
		t := []dbft.MessageType{dbft.PrepareRequestType, dbft.PrepareResponseType}[rng.Intn(2)]
		return mon.Probe{Class: "lower-view-" + t.String(), Do: recv(mk(t, h, lv, rng.Intn(nv), bodies(t, lv)))}, true
	case 4:
		return mon.Probe{Class: "response-from-primary", Do: recv(mk(dbft.PrepareResponseType, h, v, prim, bodies(dbft.PrepareResponseType, v)))}, true
	case 5:
		if amev {
			return mon.Probe{}, false
		}
		return mon.Probe{Class: "precommit-while-extension-off", Do: recv(mk(dbft.PreCommitType, h, byte(rng.Intn(int(v)+1)), rng.Intn(nv), bodies(dbft.PreCommitType, v)))}, true
	case 6:
		t := c.NewTx(false)
		return mon.Probe{Class: "unrequested-transaction", Do: func() { n.SupplyTx(t) }}, true
	case 7:
		hh, vv := h, v
		switch rng.Intn(4) {
		case 0:
			hh--
		case 1:
			hh += 1 + uint32(rng.Intn(3))
		case 2:
			vv++
		default:
			if vv > 0 {
				vv--
			} else {
				vv = byte(1 + rng.Intn(200))
			}
		}
		return mon.Probe{Class: "timeout-for-other-epoch", Do: func() { n.Timeout(hh, vv, "probe") }}, true
	default:
		// duplicate of a payload that sits in the matching table slot right now
		var cand []*vnet.Payload
		for _, t := range [][]dbft.ConsensusPayload[vnet.H]{d.PreparationPayloads, d.CommitPayloads, d.PreCommitPayloads, d.ChangeViewPayloads} {
			for i, p := range t {
				if q, ok := p.(*vnet.Payload); ok && q != nil && i != d.MyIndex && q.Hgt == h {
					cand = append(cand, q)
				}
			}
		}
		if len(cand) == 0 {
			return mon.Probe{}, false
		}
		q := cand[rng.Intn(len(cand))]
		pr := mon.Probe{Class: "duplicate-" + q.T.String(), AllowRecoveryReply: true, Do: recv(q.Clone())}
		if q.T == dbft.ChangeViewType {
			pr.DupCV = q
		}
		return pr, true
	}
}

func C11(r *ev.Run) {
	r.SetRule(ruleRuns + "at least one inadmissible or repeated input was injected into a reachable state and its effect judged; the no-panic half executes generated API call sequences in child processes (see counters fuzz:*)")
	plan := []Plan{{"async-benign", 900, 40000}, {"byz", 900, 40000}, {"missing-tx", 300, 10000}, {"valset", 300, 10000}, {"sync-perm", 300, 10000}}
	r.Assume("transport authenticity for the run itself; the injected probes are arbitrary well-typed inputs")
	if Only < 0 {
		// directed scenario of the recorded finding (deterministic KNOWN-FINDING line)
		m := &mon.Hygiene{}
		b := DirectedLatentCV(m)
		Report(r, b, m.Viols)
		Account(r, b, m.Cnt)
		SampleRun(r, b, "directed scenario "+b.Spec.Profile)
	}
	if Only < 0 {
		// seeded variations of the nested-view-change-inside-OnTransaction history (DESIGN.md §5.5): no panic
		rng := rand.New(rand.NewSource(r.Seed + 12))
		for i := 0; i < r.Pick(300, 5000); i++ {
			b := DirectedNestedTx(rng, &mon.Hygiene{})
			Account(r, b)
			r.Count("directed-nested-tx-variants", 1)
		}
	}
	RunPlan(r, plan, func(s Spec) {
		m := &mon.Hygiene{}
		b := Build(s, m)
		b.Hooks.BeforeStep = func(c *vnet.Cluster) {
			if c.Rng.Intn(12) != 0 {
				return
			}
			l := c.HonestLive()
			if len(l) == 0 {
				return
			}
			n := l[c.Rng.Intn(len(l))]
			if n.D == nil || n.D.Validators == nil {
				return
			}
			if p, ok := makeProbe(c, n); ok {
				m.Inject(c, n, p)
			}
		}
		b.Go()
		Report(r, b, m.Viols)
		Account(r, b, m.Cnt)
		tot := int64(0)
		for k, v := range m.Cnt {
			if len(k) > 7 && k[:7] == "probes:" {
				tot += v
			}
		}
		r.Count("probes-total", tot)
		if tot > 0 {
			r.Distinct(mon.AbstractTrace(b.C))
			SampleRun(r, b, "run with injected probes")
		}
	})
	for _, cl := range []string{"index-out-of-range", "past-height", "proposal-from-non-primary", "response-from-primary", "precommit-while-extension-off",
		"unrequested-transaction", "transaction-requested-in-earlier-view", "timeout-for-other-epoch", "lower-view-PrepareRequest", "lower-view-PrepareResponse", "duplicate-PrepareResponse", "duplicate-Commit", "duplicate-ChangeView", "duplicate-PrepareRequest"} {
		r.Floor("probes:"+cl, 50)
	}
	r.Floor("delivered-payloads-checked-for-mutation", 50000)
	if Only < 0 {
		fuzzNoPanic(r)
	}
}

func C13(r *ev.Run) {
	r.SetRule(ruleRuns + "a watch-only node (flag set or key outside the list) received traffic while the rotation made its index the primary, or observed decisions")
	plan := []Plan{{"watch", 3000, 100000}, {"valset", 800, 30000}, {"byz-flips", 300, 10000}}
	protoCheck(r, plan, func() (vnet.Monitor, func() ([]mon.V, map[string]int64)) {
		m := &mon.Silence{}
		return m, func() ([]mon.V, map[string]int64) { return m.Viols, m.Cnt }
	}, func(b *Built, cnt map[string]int64) bool {
		if b.Spec.Profile == "watch" && b.C.AllValidatorsDone() {
			// reported, not asserted (DESIGN 5.17): an observer that received all commits of a height before it
			// could use them is not woken up again and stays behind until the application syncs the block
			for _, n := range b.C.Nodes {
				if n.Role == vnet.Honest && n.Live() && n.D.Validators != nil && n.D.Context.WatchOnly() && n.Height() < b.C.TargetHeight() && len(n.RejectBlocks) == 0 && len(n.RejectFrom) == 0 {
					r.Count("observation:watch-only-nodes-left-behind-at-end-of-run", 1)
				}
			}
		}
		return cnt["watch-only-api-returns-while-primary"] > 0 || cnt["watch-only-blocks-observed"] > 0
	})
	r.Floor("watch-only-api-returns:OnReceive", 20000)
	r.Floor("watch-only-api-returns:Start", 1000)
	r.Floor("watch-only-api-returns:Reset", 1000)
	r.Floor("watch-only-api-returns-while-primary", 1000)
	r.Floor("watch-only-blocks-observed", 1000)
	if Only < 0 {
		watchTwins(r)
	}
}

var _ = fmt.Sprint
