package checks

import (
	"fmt"
	"math/rand"
	"time"

	"github.com/nspcc-dev/dbft/verifh/ev"
	"github.com/nspcc-dev/dbft/verifh/mon"
	"github.com/nspcc-dev/dbft/verifh/vnet"
)

// watchTwins: "the validators around it make progress exactly as if it were a
// silent validator" - the same deterministic schedule is executed with one
// validator running in watch-only mode (it receives all traffic) and with
// that validator switched off; every other validator must produce the same
// stream of payloads and timer calls.
func watchTwins(r *ev.Run) {
	n := r.Pick(1500, 40000)
	Parallel(n, func(i int) {
		s := Spec{Profile: "watch-twin", Idx: i, Seed: RunSeed(r, "watch-twin", i)}
		rr := rand.New(rand.NewSource(s.Seed + 3))
		epoch := time.Date(2031+rr.Intn(20), 3, 4, 5, 6, 7, 0, time.UTC).UnixNano()
		nAlt, wDraw := 4+rr.Intn(4), rr.Intn(1<<20)
		w := -1
		base := func(cfg *vnet.Config) {
			if cfg.N < 4 {
				cfg.N = nAlt
				cfg.Roles = make([]vnet.Role, cfg.N)
			}
			for i := range cfg.Roles {
				cfg.Roles[i] = vnet.Honest
			}
			w = wDraw % cfg.N
			cfg.MaxClock = time.Duration(cfg.Heights) * 300 * cfg.TPB
		}
		a := runFifo(s, epoch, base, func(cfg *vnet.Config) {
			cfg.WatchFlag = make([]bool, cfg.N)
			cfg.WatchFlag[w] = true
		})
		b := runFifo(s, epoch, base, func(cfg *vnet.Config) { cfg.Roles[w] = vnet.Silent })
		r.Eval(1)
		r.Count("twin-runs", 1)
		if a.aborted != "" || b.aborted != "" {
			r.Count("runs-aborted", 1)
			PanicsToViolations(r, a.c, s)
			return
		}
		// the watch-only node itself must be silent in run A
		if len(filterSends(a.perNode[w])) > 0 {
			r.Violation("watch-only-broadcast", fmt.Sprintf("watch-only validator n%d broadcast %v", w, head(filterSends(a.perNode[w]), 3)),
				map[string]any{"spec": s, "cfg": CfgSummary(a.c), "watch_node": w, "sent": head(filterSends(a.perNode[w]), 10)})
			return
		}
		if a.cacheUsed || b.cacheUsed {
			r.Count("twins-skipped-cache-replay", 1)
			return
		}
		a.perNode[w], b.perNode[w] = nil, nil
		if nd, what := diffTraces(a, b); nd >= 0 {
			r.Violation("watch-only-not-like-silent", "validators behave differently next to a watch-only validator than next to a silent one: "+what,
				map[string]any{"spec": s, "cfg": CfgSummary(a.c), "watch_node": w, "difference": what})
			return
		}
		r.Count("twins-compared", 1)
		if a.decided >= 2 {
			r.Distinct("twin/" + mon.AbstractTrace(a.c))
		}
	})
	r.Floor("twins-compared", int64(n)/4)
}

func filterSends(l []string) []string {
	var res []string
	for _, s := range l {
		if len(s) > 5 && s[:5] == "send(" {
			res = append(res, s)
		}
	}
	return res
}
