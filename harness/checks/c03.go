package checks

import (
	"github.com/nspcc-dev/dbft/verifh/ev"
	"github.com/nspcc-dev/dbft/verifh/mon"
	"github.com/nspcc-dev/dbft/verifh/vnet"
)

const ruleRuns = "one case = one complete multi-height cluster run of real dbft instances under a seeded hostile scheduler (profile, N, heights, anti-MEV mode, fault roles drawn from the seed); distinct = distinct abstract traces (sequence of node, event kind, message type, view); non-trivial: "

// protoCheck runs the hostile profiles under one online/offline monitor.
func protoCheck(r *ev.Run, plan []Plan, mk func() (vnet.Monitor, func() ([]mon.V, map[string]int64)), nontrivial func(b *Built, cnt map[string]int64) bool) {
	r.Assume("transport authenticity: adversaries cannot create payloads under honest validators' indices nor honest signatures")
	r.Assume("at most F=(N-1)/3 validators are Byzantine, amnesiac or silent in every run")
	RunPlan(r, plan, func(s Spec) {
		m, res := mk()
		b := Build(s, m)
		b.Go()
		vs, cnt := res()
		Report(r, b, vs)
		Account(r, b, cnt)
		if nontrivial(b, cnt) {
			r.Distinct(mon.AbstractTrace(b.C))
			SampleRun(r, b, "non-trivial run")
		}
	})
}

var hostilePlan = []Plan{{"byz", 1200, 25000}, {"async-benign", 900, 20000}, {"missing-tx", 400, 8000}, {"sync-perm", 200, 5000}, {"amnesia-async", 400, 12000}}

func C03(r *ev.Run) {
	r.SetRule(ruleRuns + "the run contains a commit or pre-commit of an honest node followed by further traffic to it, or a view entry")
	if Only < 0 {
		// directed scenario of the recorded finding (deterministic KNOWN-FINDING line)
		m := &mon.Lock{}
		b := DirectedCommitThenWatch(m)
		Report(r, b, m.Viols)
		Account(r, b, m.Cnt)
		SampleRun(r, b, "directed scenario "+b.Spec.Profile)
	}
	protoCheck(r, append(append([]Plan{}, hostilePlan...), Plan{"byz-flips", 300, 6000}), func() (vnet.Monitor, func() ([]mon.V, map[string]int64)) {
		m := &mon.Lock{}
		return m, func() ([]mon.V, map[string]int64) { return m.Viols, m.Cnt }
	}, func(b *Built, cnt map[string]int64) bool {
		return cnt["api-returns-while-locked"] > 0 || cnt["view-entries-seen"] > 0
	})
	r.Floor("sends-checked", 20000)
	r.Floor("commits-seen", 2000)
	r.Floor("precommits-seen", 300)
	r.Floor("api-returns-while-locked", 5000)
	r.Floor("view-entries-seen", 200)
	r.Floor("own-commits-in-recovery", 100)
	r.Floor("commit-retransmissions", 20)
}

func C04(r *ev.Run) {
	r.SetRule(ruleRuns + "at least one prepare response, commit/pre-commit send or view entry of an honest node was evaluated")
	protoCheck(r, hostilePlan, func() (vnet.Monitor, func() ([]mon.V, map[string]int64)) {
		m := mon.NewGate()
		return m, func() ([]mon.V, map[string]int64) { return m.Viols, m.Cnt }
	}, func(b *Built, cnt map[string]int64) bool {
		return cnt["responses-checked"]+cnt["commit-sends-checked"]+cnt["view-entries-checked"] > 0
	})
	r.Floor("responses-checked", 3000)
	r.Floor("commit-sends-checked", 3000)
	r.Floor("view-entries-checked", 200)
}

func C07(r *ev.Run) {
	r.SetRule(ruleRuns + "the run reached a height with the anti-MEV extension enabled and a pre-block was processed, or a height below the enabling height of a run that enables it later")
	protoCheck(r, hostilePlan, func() (vnet.Monitor, func() ([]mon.V, map[string]int64)) {
		m := mon.NewPhase()
		return m, func() ([]mon.V, map[string]int64) { return m.Viols, m.Cnt }
	}, func(b *Built, cnt map[string]int64) bool {
		return cnt["preblocks-processed"] > 0 || (b.C.Cfg.AMEV > 0 && cnt["commit-sends-plain"] > 0)
	})
	r.Floor("preblocks-processed", 500)
	r.Floor("commit-sends-amev", 500)
	r.Floor("commit-sends-plain", 500)
	r.Floor("final-blocks-built", 500)
}

func C10(r *ev.Run) {
	r.SetRule(ruleRuns + "at least one API return of an undecided validator was checked")
	if Only < 0 {
		// directed scenario of the recorded finding (deterministic KNOWN-FINDING line)
		m := mon.NewWake()
		b := DirectedWatchFlagOff(m)
		Report(r, b, m.Viols)
		Account(r, b, m.Cnt)
		SampleRun(r, b, "directed scenario "+b.Spec.Profile)
	}
	protoCheck(r, append(append([]Plan{}, hostilePlan...), Plan{"watch", 300, 10000}), func() (vnet.Monitor, func() ([]mon.V, map[string]int64)) {
		m := mon.NewWake()
		return m, func() ([]mon.V, map[string]int64) { return m.Viols, m.Cnt }
	}, func(b *Built, cnt map[string]int64) bool {
		return cnt["api-returns-checked:OnReceive"] > 0
	})
	r.Floor("api-returns-checked:OnReceive", 50000)
	r.Floor("api-returns-checked:OnTimeout", 1000)
	r.Floor("api-returns-checked:Reset", 1000)
	r.Floor("api-returns-checked:Start", 1000)
	r.Floor("api-returns-checked:OnTransaction", 200)
	r.Floor("matching-timeouts", 1000)
}
