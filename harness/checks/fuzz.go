package checks

import (
	"bufio"
	"encoding/json"
	"fmt"
	"math/rand"
	"os"
	"os/exec"
	"path/filepath"
	"strconv"
	"strings"
	"sync"
	"time"

	"github.com/nspcc-dev/dbft"
	"github.com/nspcc-dev/dbft/verifh/ev"
	"github.com/nspcc-dev/dbft/verifh/vnet"
)

// The no-panic half of C11: generated sequences of well-formed API calls on
// 1-3 real instances, with arbitrary payloads, arbitrary callback results,
// validator sets and own index changing between heights. Cases run in child
// processes that record the case index before executing it, so that even a
// fatal error (not recoverable in-process) names the offending sequence.

type fuzzResult struct {
	Case   int      `json:"case"`
	Seed   int64    `json:"seed"`
	Ops    int      `json:"ops"`
	Panic  string   `json:"panic,omitempty"`
	API    string   `json:"api,omitempty"`
	Arg    string   `json:"arg,omitempty"`
	Stack  string   `json:"stack,omitempty"`
	Tail   []string `json:"tail,omitempty"`
	Shape  string   `json:"shape"`
	Counts map[string]int
}

func fuzzSeed(base int64, i int) int64 { return base*2862933555777941757 + int64(i)*3037000493 + 11 }

func fuzzCase(seed int64, i int) fuzzResult {
	r := rand.New(rand.NewSource(seed))
	total := 1 + r.Intn(7)
	cfg := vnet.Config{Seed: seed, Profile: "fuzz", N: total, Heights: 1000, TPB: time.Second, TxPerBlock: r.Intn(4), MaxSteps: 1 << 30,
		Epoch: time.Date(2031, 1, 1, 0, 0, 0, 0, time.UTC).UnixNano(), BaseHeight: uint32(r.Intn(50))}
	cfg.GenesisTs = uint64(cfg.Epoch) - uint64(cfg.TPB)
	cfg.K.SlowNode, cfg.K.ResetDelayNode = -1, -1
	switch r.Intn(3) {
	case 0:
		cfg.AMEV = -1
	case 1:
		cfg.AMEV = 0
	default:
		cfg.AMEV = int64(cfg.BaseHeight) + int64(1+r.Intn(3))
	}
	if r.Intn(3) == 0 {
		cfg.MaxTPB = cfg.TPB * time.Duration(1+r.Intn(4))
	}
	cfg.Roles = make([]vnet.Role, total)
	real := 1 + r.Intn(min(3, total))
	for k, id := range r.Perm(total) {
		if k >= real {
			cfg.Roles[id] = vnet.Silent
		}
	}
	if r.Intn(2) == 0 {
		vseed := seed
		minN := 1 + r.Intn(total)
		cfg.ValSchedule = func(idx uint32) []int {
			rr := rand.New(rand.NewSource(vseed ^ int64(idx)*2654435761))
			n := minN + rr.Intn(total-minN+1)
			return rr.Perm(total)[:n]
		}
	}
	c := vnet.NewCluster(cfg)
	for k := r.Intn(6); k > 0; k-- {
		c.AddTx(r.Intn(8) == 0, 0.3)
	}
	res := fuzzResult{Case: i, Seed: seed, Counts: map[string]int{}}
	var reals []*vnet.Node
	for _, n := range c.Nodes {
		if n.Role == vnet.Honest {
			reals = append(reals, n)
			n.Watch = r.Intn(10) == 0
			n.Start()
		}
	}
	var fabricated []*vnet.Payload
	types := []dbft.MessageType{dbft.PrepareRequestType, dbft.PrepareResponseType, dbft.ChangeViewType, dbft.CommitType, dbft.PreCommitType, dbft.RecoveryRequestType, dbft.RecoveryMessageType}
	var fab func(n *vnet.Node, depth int) *vnet.Payload
	fab = func(n *vnet.Node, depth int) *vnet.Payload {
		d := n.D
		nv := len(d.Validators)
		h := d.BlockIndex
		switch r.Intn(10) {
		case 0:
			h--
		case 1:
			h++
		case 2:
			h += uint32(r.Intn(5))
		case 3:
			h = r.Uint32()
		}
		v := d.ViewNumber
		switch r.Intn(10) {
		case 0:
			v--
		case 1, 2:
			v++
		case 3:
			v = byte(r.Intn(256))
		}
		idx := r.Intn(nv + 1)
		if r.Intn(6) == 0 {
			idx = int(d.GetPrimaryIndex(v))
		}
		t := types[r.Intn(len(types))]
		if depth > 0 {
			t = types[r.Intn(5)]
		}
		p := &vnet.Payload{T: t, Hgt: h, View: v, Idx: uint16(idx), Forged: true, Origin: -1}
		// proposals known for signing
		var props []*vnet.Payload
		for _, q := range fabricated {
			if q.T == dbft.PrepareRequestType && q.Hgt == h {
				props = append(props, q)
			}
		}
		for _, q := range c.GenList {
			if q.T == dbft.PrepareRequestType && q.Hgt == h {
				props = append(props, q)
			}
		}
		key := func() *vnet.Key {
			ids := c.Validators(h)
			if len(ids) == 0 {
				return c.Keys[0]
			}
			return c.Keys[ids[idx%len(ids)]]
		}
		switch t {
		case dbft.PrepareRequestType:
			req := &vnet.PrepReq{Ts: n.TipTs() + uint64(r.Intn(5))*1000000, Nc: r.Uint64(), Hashes: []vnet.H{}}
			if r.Intn(8) == 0 {
				req.Ts = r.Uint64()
			}
			for k := r.Intn(4); k > 0; k-- {
				switch r.Intn(5) {
				case 0:
					req.Hashes = append(req.Hashes, vnet.TxHash(1<<50+uint64(r.Intn(100)))) // unknown
				case 1:
					if len(req.Hashes) > 0 {
						req.Hashes = append(req.Hashes, req.Hashes[0]) // duplicate
					}
				default:
					for hh := range c.Universe {
						req.Hashes = append(req.Hashes, hh)
						break
					}
				}
			}
			p.Body = req
		case dbft.PrepareResponseType:
			var x vnet.H
			if len(props) > 0 && r.Intn(3) != 0 {
				x = props[r.Intn(len(props))].Hash()
			} else {
				r.Read(x[:])
			}
			p.Body = &vnet.PrepResp{Prep: x}
		case dbft.ChangeViewType:
			nvw := v + 1
			switch r.Intn(6) {
			case 0:
				nvw = byte(r.Intn(256))
			case 1:
				nvw = v
			case 2:
				nvw = 255
			}
			p.Body = &vnet.ChView{NewView: nvw, Rsn: dbft.ChangeViewReason(r.Intn(7)), Ts: r.Uint64()}
		case dbft.CommitType:
			sig := make([]byte, 64)
			r.Read(sig)
			if len(props) > 0 && r.Intn(3) != 0 {
				sig = c.BlockFor(props[r.Intn(len(props))], n.TipHash()).SignWith(key())
			}
			p.Body = &vnet.CommitB{Sig: sig}
		case dbft.PreCommitType:
			dd := make([]byte, 16)
			r.Read(dd)
			if len(props) > 0 && r.Intn(3) != 0 {
				dd = c.PreBlockFor(props[r.Intn(len(props))], n.TipHash()).DataWith(key())
			}
			p.Body = &vnet.PreCommitB{D: dd}
		case dbft.RecoveryRequestType:
			p.Body = &vnet.RecReq{Ts: r.Uint64()}
		case dbft.RecoveryMessageType:
			rm := &vnet.RecMsg{}
			for k := r.Intn(8); k > 0; k-- {
				var q *vnet.Payload
				switch {
				case len(c.GenList) > 0 && r.Intn(3) == 0:
					q = c.GenList[r.Intn(len(c.GenList))]
				case len(fabricated) > 0 && r.Intn(2) == 0:
					q = fabricated[r.Intn(len(fabricated))]
				default:
					q = fab(n, depth+1)
				}
				if q.T == dbft.PrepareRequestType {
					rm.PrepReq = q.Clone()
				} else {
					rm.AddPayload(q)
				}
			}
			p.Body = rm
		}
		if depth == 0 && len(fabricated) < 200 {
			fabricated = append(fabricated, p)
		}
		return p
	}
	ops := 60 + r.Intn(240)
	var shape strings.Builder
	for op := 0; op < ops && !c.Aborted; op++ {
		n := reals[r.Intn(len(reals))]
		if !n.Live() || n.D.Validators == nil {
			break
		}
		x := r.Intn(100)
		switch {
		case x < 38:
			p := fab(n, 0)
			res.Counts["recv:"+p.T.String()]++
			shape.WriteByte('a' + byte(p.T&7))
			n.Receive(p)
		case x < 55:
			if len(c.Inflight) > 0 {
				k := r.Intn(len(c.Inflight))
				e := c.Inflight[k]
				c.Inflight = append(c.Inflight[:k], c.Inflight[k+1:]...)
				res.Counts["deliver-genuine"]++
				shape.WriteByte('g')
				c.Deliver(e)
				n = c.Nodes[e.To]
			}
		case x < 67:
			h, v := n.D.BlockIndex, n.D.ViewNumber
			if r.Intn(5) == 0 {
				h, v = r.Uint32(), byte(r.Intn(256))
			}
			res.Counts["timeout"]++
			shape.WriteByte('T')
			n.Timeout(h, v, "fuzz")
		case x < 76:
			var t *vnet.Tx
			for hh := range n.Requested {
				t = c.Universe[hh]
				break
			}
			if t == nil || r.Intn(4) == 0 {
				t = c.NewTx(r.Intn(6) == 0)
			}
			res.Counts["tx"]++
			shape.WriteByte('X')
			n.SupplyTx(t)
		case x < 79:
			res.Counts["newtx"]++
			shape.WriteByte('N')
			c.AddTx(false, 0.3)
			n.NewTxNotify()
		case x < 86:
			// Reset: after an acceptance, or spuriously at the unchanged height
			res.Counts["reset"]++
			shape.WriteByte('R')
			n.Reset()
		case x < 92:
			res.Counts["knob"]++
			shape.WriteByte('k')
			switch r.Intn(9) {
			case 7:
				n.NilBlocks = r.Intn(4)
			case 0:
				n.RejectFrom[uint16(r.Intn(len(n.D.Validators)+1))] = r.Intn(2) == 0
			case 1:
				n.RejectBlocks[[2]uint32{n.D.BlockIndex, uint32(n.D.ViewNumber)}] = r.Intn(2) == 0
			case 2:
				n.FailPreBlock = r.Intn(3)
			case 3:
				n.FailBlock = r.Intn(3)
			case 4:
				n.SignErr = r.Intn(3) == 0
			case 5:
				for hh := range n.Pool {
					delete(n.Pool, hh)
					break
				}
			case 6:
				n.Watch = r.Intn(4) == 0
			default:
				c.AddTx(r.Intn(4) == 0, 0.5)
			}
		case x < 95:
			// the ledger moves by other means (validator set and own index may change), then Reset
			res.Counts["ledger-jump"]++
			shape.WriteByte('J')
			for k := 1 + r.Intn(3); k > 0; k-- {
				b := vnet.NewBlock(n.Height()+1, n.TipHash(), n.TipTs()+1000000, r.Uint64(), nil, nil)
				n.Chain = append(n.Chain, b)
			}
			n.Reset()
		default:
			res.Counts["clock"]++
			shape.WriteByte('c')
			c.Clock += int64(r.Intn(3000)) * int64(time.Millisecond)
			for _, m := range reals {
				if dl, p := m.Timer.Deadline(); p && dl <= c.Clock && m.Live() {
					m.FireTimer()
				}
			}
		}
		if n.PendingReset && r.Intn(3) != 0 {
			n.Reset()
		}
		res.Ops++
	}
	s := shape.String()
	if len(s) > 24 {
		s = s[:24]
	}
	res.Shape = fmt.Sprintf("N%d/r%d/amev%d/%s", total, len(reals), cfg.AMEV, s)
	if len(c.Panics) > 0 {
		p := c.Panics[0]
		res.Panic, res.API, res.Arg, res.Stack = p.Value, p.API, p.Arg, p.Stack
		res.Tail = tailStrings(c, 40)
	}
	return res
}

// FuzzWorker executes cases [lo,hi) and prints one JSON line per case.
func FuzzWorker(base int64, lo, hi int, progress string) {
	w := bufio.NewWriter(os.Stdout)
	defer w.Flush()
	for i := lo; i < hi; i++ {
		_ = os.WriteFile(progress, []byte(strconv.Itoa(i)), 0o644)
		res := fuzzCase(fuzzSeed(base, i), i)
		b, _ := json.Marshal(res)
		w.Write(b)
		w.WriteByte('\n')
		w.Flush()
	}
}

func trimStack(s string) string {
	lines := strings.Split(s, "\n")
	var keep []string
	for _, l := range lines {
		if strings.Contains(l, "/dbft") || strings.Contains(l, "panic") {
			keep = append(keep, strings.TrimSpace(l))
		}
		if len(keep) > 24 {
			break
		}
	}
	return strings.Join(keep, " | ")
}

func fuzzNoPanic(r *ev.Run) {
	total := r.Pick(40000, 1500000)
	workers := 16
	chunk := (total + workers - 1) / workers
	exe, err := os.Executable()
	if err != nil {
		r.Inconclusive("cannot locate own executable: " + err.Error())
		return
	}
	var mu sync.Mutex
	var wg sync.WaitGroup
	for w := 0; w < workers; w++ {
		lo, hi := w*chunk, min((w+1)*chunk, total)
		if lo >= hi {
			continue
		}
		wg.Add(1)
		go func(w, lo, hi int) {
			defer wg.Done()
			progress := filepath.Join(ev.Work(), fmt.Sprintf("fuzz-progress-%d", w))
			for lo < hi {
				cmd := exec.Command(exe, "-prop", "C11", "-fuzzworker", fmt.Sprintf("%d:%d:%d:%s", r.Seed, lo, hi, progress))
				var errb strings.Builder
				cmd.Stderr = &errb
				out, _ := cmd.StdoutPipe()
				if err := cmd.Start(); err != nil {
					r.Inconclusive("cannot start fuzz worker: " + err.Error())
					return
				}
				timer := time.AfterFunc(45*time.Minute, func() { _ = cmd.Process.Kill() })
				sc := bufio.NewScanner(out)
				sc.Buffer(make([]byte, 1<<20), 1<<26)
				last := lo - 1
				for sc.Scan() {
					var res fuzzResult
					if json.Unmarshal(sc.Bytes(), &res) != nil {
						continue
					}
					last = res.Case
					mu.Lock()
					r.Eval(1)
					r.Count("fuzz:cases", 1)
					r.Count("fuzz:api-calls", int64(res.Ops))
					for k, v := range res.Counts {
						r.Count("fuzz:"+k, int64(v))
					}
					r.Distinct("fuzz/" + res.Shape)
					if res.Panic != "" {
						r.Violation("panic:"+res.API+":"+firstWords(res.Panic), fmt.Sprintf("library panicked in %s(%s): %s", res.API, res.Arg, res.Panic),
							map[string]any{"fuzz_case": res.Case, "fuzz_seed": res.Seed, "stack": trimStack(res.Stack), "tail": res.Tail,
								"replay_cmd": fmt.Sprintf("VERIF_SEED=%d bin/check C11 %s -fuzzone %d", r.Seed, r.Tier, res.Case)})
					}
					mu.Unlock()
				}
				werr := cmd.Wait()
				killed := !timer.Stop()
				if last+1 >= hi && werr == nil {
					return
				}
				// the worker died: the progress file names the case it was executing
				b, _ := os.ReadFile(progress)
				bad, perr := strconv.Atoi(strings.TrimSpace(string(b)))
				if perr != nil || bad < lo {
					r.Inconclusive(fmt.Sprintf("fuzz worker %d died without progress information: %v", w, werr))
					return
				}
				if killed {
					r.Inconclusive(fmt.Sprintf("fuzz worker %d hit the wall-clock watchdog in case %d", w, bad))
					return
				}
				st := errb.String()
				if len(st) > 6000 {
					st = st[:6000]
				}
				mu.Lock()
				r.Violation("fatal:"+firstWords(st), fmt.Sprintf("fuzz case %d killed the process: %v", bad, werr),
					map[string]any{"fuzz_case": bad, "stderr": st, "replay_cmd": fmt.Sprintf("VERIF_SEED=%d bin/check C11 %s -fuzzone %d", r.Seed, r.Tier, bad)})
				mu.Unlock()
				lo = bad + 1
			}
		}(w, lo, hi)
	}
	wg.Wait()
	r.Floor("fuzz:cases", int64(total)*9/10)
	r.Floor("fuzz:recv:RecoveryMessage", 1000)
	r.Floor("fuzz:reset", 1000)
	r.Floor("fuzz:ledger-jump", 1000)
}

func firstWords(s string) string {
	s = strings.TrimSpace(s)
	if i := strings.IndexByte(s, '\n'); i >= 0 {
		s = s[:i]
	}
	f := strings.Fields(s)
	if len(f) > 6 {
		f = f[:6]
	}
	return strings.Join(f, "-")
}

// FuzzOne replays one fuzz case in-process and prints it.
func FuzzOne(base int64, i int) {
	res := fuzzCase(fuzzSeed(base, i), i)
	b, _ := json.MarshalIndent(res, "", " ")
	fmt.Println(string(b))
}
