package checks

import (
	"github.com/nspcc-dev/dbft/verifh/ev"
	"github.com/nspcc-dev/dbft/verifh/mon"
	"github.com/nspcc-dev/dbft/verifh/vnet"
	"strconv"
)

func C09(r *ev.Run) {
	r.SetRule(ruleRuns + "the run contains a fault (silent validators, a healed partition, a restart) and at least one decision after the last fault event; verdict restated as bounded progress in virtual time: after the last fault event every live validator gains each height within 16*2^(v0+s)*TimePerBlock")
	r.Assume("after the last fault event the network is synchronous (every due message is delivered before timers fire, random order inside a round); ledger sync between connected peers is available")
	r.Assume("at most F validators are silent; partitions may cut off any subset but heal; one validator (<=F) may restart with empty state")
	if Only < 0 {
		// directed scenario of the recorded finding (deterministic KNOWN-FINDING line)
		live := &mon.Live{}
		b := DirectedAmnesiacPrimary(live)
		Report(r, b, live.Viols)
		Account(r, b, live.Cnt)
		SampleRun(r, b, "directed scenario "+b.Spec.Profile)
		live = &mon.Live{Silent: 1, FromStart: true}
		b = DirectedPrimaryWaitsAfterRecovery(live)
		Report(r, b, live.Viols)
		Account(r, b, live.Cnt)
		SampleRun(r, b, "directed scenario "+b.Spec.Profile)
		live = &mon.Live{AsyncPrefix: true}
		b = DirectedCommitSplit(live)
		Report(r, b, live.Viols)
		Account(r, b, live.Cnt)
		SampleRun(r, b, "directed scenario "+b.Spec.Profile)
	}
	plan := []Plan{{"silent-f", 1500, 60000}, {"partition", 1500, 60000}, {"amnesia", 1000, 40000}, {"async-then-sync", 1500, 60000}}
	RunPlan(r, plan, func(s Spec) {
		live := &mon.Live{}
		agree := &mon.Agree{}
		b := Build(s, live, agree)
		for _, role := range b.C.Cfg.Roles {
			if role == vnet.Silent {
				live.Silent++
			}
		}
		live.FromStart = s.Profile == "silent-f"
		live.AsyncPrefix = s.Profile == "async-then-sync"
		b.Go()
		Report(r, b, live.Viols)
		Report(r, b, agree.Viols)
		for _, p := range b.C.Panics {
			// a validator whose library call panicked has crashed: it does not decide any more
			r.Violation("node-crashed:"+p.API, "n"+strconv.Itoa(p.Node)+" crashed in "+p.API+"("+p.Arg+") and makes no further progress: "+p.Value,
				map[string]any{"spec": s, "cfg": CfgSummary(b.C), "panic": p, "tail": tailStrings(b.C, 60)})
		}
		Account(r, b, live.Cnt)
		if live.Inconclusive {
			r.Count("runs-inconclusive-step-cap", 1)
		}
		if live.Cnt["post-gst-decisions"] > 0 && (live.Silent > 0 || b.C.LastFault() > 0 || b.C.Stats["cut-drop"] > 0) {
			r.Distinct(mon.AbstractTrace(b.C))
			SampleRun(r, b, "run with faults")
		}
	})
	r.Floor("post-gst-decisions", 10000)
	r.Floor("post-gst-ledger-catchups", 50)
	r.Floor("nodes-reached-target", 5000)
	r.Floor("net:cut-drop", 1000)
	if c := r.Counter("runs-inconclusive-step-cap"); c > r.Counter("runs:silent-f")/20+10 {
		r.Inconclusive("too many runs ended before the progress bound could be judged")
	}
}
