package checks

import (
	"fmt"
	"math/rand"
	"regexp"
	"strings"
	"time"

	"github.com/nspcc-dev/dbft"
	"github.com/nspcc-dev/dbft/verifh/ev"
	"github.com/nspcc-dev/dbft/verifh/mon"
	"github.com/nspcc-dev/dbft/verifh/vnet"
)

// C14: time enters only through the injected timer. Twin runs of one
// deterministic scripted schedule under virtual clocks that differ by a
// constant offset must produce the same timer arguments and the same
// payload stream with timestamps shifted by exactly that offset; a third run
// with the first epoch, executed later in wall time, must equal the first.

func fifoConfig(s Spec, epoch int64) vnet.Config {
	r := rand.New(rand.NewSource(s.Seed))
	cfg := baseConfig(s, r, Opt{Ns: []int{1, 2, 3, 4, 4, 5, 7}, MinH: 3, MaxH: 4, Dyn: 1})
	cfg.Epoch = epoch
	cfg.TsInc = []uint64{1000000, 1000000, 250000, 1000, 7, 1000000000}[r.Intn(6)]
	cfg.GenesisTs = uint64(epoch) - uint64(cfg.TPB)
	cfg.K = vnet.Knobs{Sync: true, FIFO: true, SlowNode: -1, ResetDelayNode: -1}
	cfg.LatMin = cfg.TPB / time.Duration(pickInt(r, []int{100, 50, 20}))
	cfg.LatMax = cfg.LatMin
	if cfg.BaseHeight == 0 && r.Intn(2) == 0 {
		// half of the fresh-chain cases stay at ledger height 0 (all timers of the first height are
		// zero there, DESIGN 5.10: progress is not what this check compares)
		cfg.BaseHeight = 1
	}
	cfg.Roles = make([]vnet.Role, cfg.N)
	if cfg.N >= 4 && r.Intn(2) == 0 {
		// the primary of the first height is silent: view change, change-view timestamps, recovery traffic
		cfg.Roles[int((cfg.BaseHeight+1)%uint32(cfg.N))] = vnet.Silent
	}
	cfg.MaxClock = time.Duration(cfg.Heights) * 100 * cfg.TPB
	return cfg
}

type c14Trace struct {
	perNode   [][]string
	cacheUsed bool
	decided   int
	aborted   string
	c         *vnet.Cluster
}

func runFifo(s Spec, epoch int64, mods ...func(*vnet.Config)) *c14Trace {
	cfg := fifoConfig(s, epoch)
	for _, f := range mods {
		f(&cfg)
	}
	c := vnet.NewCluster(cfg)
	r := rand.New(rand.NewSource(s.Seed + 5))
	for i := r.Intn(6); i > 0; i-- {
		c.AddTx(false, 0)
	}
	c.StartAll(false)
	c.Run(nil)
	return traceOf(c, epoch)
}

// runViewJump: one real validator among silent ones is scripted through a view jump: it asks for view 1
// on a timeout, then M-1.. other validators' requests for view 2 arrive and it jumps from view 0 to
// view 2, broadcasting its "change agreement" request - the one change view payload that is not made
// by sendChangeView. k shifts the moment of the timeout a little.
func runViewJump(epoch int64, k int) *c14Trace {
	cfg := vnet.Config{Seed: 4711, Profile: "view-jump", N: 7, BaseHeight: 9, Heights: 1, AMEV: -1, TPB: time.Second, Epoch: epoch,
		TsInc: 1000, MaxSteps: 1000}
	cfg.GenesisTs = uint64(epoch) - uint64(cfg.TPB)
	cfg.K.SlowNode, cfg.K.ResetDelayNode = -1, -1
	cfg.Roles = []vnet.Role{vnet.Silent, vnet.Silent, vnet.Silent, vnet.Honest, vnet.Silent, vnet.Silent, vnet.Silent}
	c := vnet.NewCluster(cfg)
	x := c.Nodes[3]
	x.Start()
	h := cfg.BaseHeight + 1
	mk := func(t dbft.MessageType, idx int, body any) *vnet.Payload {
		return &vnet.Payload{T: t, Hgt: h, View: 0, Idx: uint16(idx), Body: body, Origin: -1}
	}
	for _, i := range []int{0, 1, 2, 4, 5, 6} { // everybody has been heard from
		x.Receive(mk(dbft.RecoveryRequestType, i, &vnet.RecReq{Ts: uint64(epoch) + 1}))
	}
	c.Clock += int64(2*time.Second) + int64(k)*1234567
	x.Timeout(h, 0, "scripted")
	c.Clock += 31415926
	for _, i := range []int{0, 1, 2, 4, 5} {
		x.Receive(mk(dbft.ChangeViewType, i, &vnet.ChView{NewView: 2, Ts: uint64(epoch) + uint64(c.Clock)}))
	}
	return traceOf(c, epoch)
}

// traceOf extracts the comparable per-node streams (timer calls and payload summaries) of a finished run.
func traceOf(c *vnet.Cluster, epoch int64) *c14Trace {
	t := &c14Trace{perNode: make([][]string, len(c.Nodes)), c: c, aborted: c.AbortWhy}
	off := uint64(epoch)
	for _, e := range c.Trace {
		if e.Node < 0 {
			continue
		}
		var s string
		switch e.Kind {
		case vnet.KTimerReset:
			s = fmt.Sprintf("reset(%d,%d,%d)", e.TH, e.TV, int64(e.Dur))
		case vnet.KTimerExtend:
			s = fmt.Sprintf("extend(%d)", int64(e.Dur))
		case vnet.KSend:
			p := e.P
			s = fmt.Sprintf("send(%s,%d,%d,%d", p.T, p.Hgt, p.View, p.Idx)
			switch b := p.Body.(type) {
			case *vnet.PrepReq:
				s += fmt.Sprintf(",ts=%d,tx=%v", int64(b.Ts-off), b.Hashes)
			case *vnet.ChView:
				s += fmt.Sprintf(",new=%d,rsn=%d,ts=%d", b.NewView, b.Rsn, int64(b.Ts-off))
			case *vnet.RecReq:
				s += fmt.Sprintf(",ts=%d", int64(b.Ts-off))
			case *vnet.RecMsg:
				s += fmt.Sprintf(",req=%v,%d,%d,%d,%d", b.PrepReq != nil, len(b.PrepResps), len(b.ChViews), len(b.PreCommits), len(b.Commits))
			}
			s += ")"
		case vnet.KAPICall:
			if e.API == "OnReceive" && e.P != nil && (e.P.Hgt > e.H || (e.P.View > e.V && e.P.T != dbft.ChangeViewType && e.P.T != dbft.RecoveryMessageType)) {
				t.cacheUsed = true // cache replay order is Go map order: not comparable
			}
			continue
		default:
			continue
		}
		t.perNode[e.Node] = append(t.perNode[e.Node], s)
	}
	t.decided = decisions(c)
	return t
}

var tsField = regexp.MustCompile(`ts=-?\d+`)

// maskTimestamps returns a copy of the trace with every timestamp field blanked.
func maskTimestamps(t *c14Trace) *c14Trace {
	cp := &c14Trace{perNode: make([][]string, len(t.perNode))}
	for i, l := range t.perNode {
		cp.perNode[i] = make([]string, len(l))
		for j, s := range l {
			cp.perNode[i][j] = tsField.ReplaceAllString(s, "ts=*")
		}
	}
	return cp
}

func diffTraces(a, b *c14Trace) (int, string) {
	for n := range a.perNode {
		la, lb := a.perNode[n], b.perNode[n]
		for i := 0; i < len(la) || i < len(lb); i++ {
			var x, y string
			if i < len(la) {
				x = la[i]
			}
			if i < len(lb) {
				y = lb[i]
			}
			if x != y {
				return n, fmt.Sprintf("node %d, position %d: %q vs %q", n, i, x, y)
			}
		}
	}
	return -1, ""
}

var c14Deltas = []int64{1, 3600, 10000000, 1000000000}

func C14(r *ev.Run) {
	r.SetRule("one case = one deterministic FIFO schedule (N, heights, latency, silent primary, anti-MEV, dynamic block time drawn from the seed) executed three times: epoch E, epoch E+delta (delta = +-k whole seconds) and epoch E again later in wall time; non-trivial = at least 2 heights decided and the primary measured a round trip; distinct = distinct (abstract trace, sign and size of delta, epochs straddling the machine's present or not)")
	r.Assume("the harness payloads carry nanosecond timestamps; nonces, hashes and signatures are excluded from the comparison because the library draws nonces from crypto/rand")
	n := r.Pick(4000, 80000)
	var specs []Spec
	for i := 0; i < n; i++ {
		specs = append(specs, Spec{Profile: "fifo", Idx: i, Seed: RunSeed(r, "fifo", i)})
	}
	run := func(s Spec) {
		rr := rand.New(rand.NewSource(s.Seed + 99))
		year := 1971 + rr.Intn(130)
		e1 := time.Date(year, time.Month(1+rr.Intn(12)), 1+rr.Intn(28), rr.Intn(24), rr.Intn(60), rr.Intn(60), 0, time.UTC).UnixNano()
		d := c14Deltas[rr.Intn(len(c14Deltas))] * int64(time.Second)
		inc := int64(fifoConfig(s, e1).TsInc)
		if rr.Intn(2) == 0 {
			// any multiple of the timestamp increment, not only whole seconds
			d = inc * (1 + rr.Int63n(1000000))
			r.Count("cases-with-sub-second-offset", 1)
		}
		d -= d % inc
		if d == 0 {
			d = inc
		}
		if rr.Intn(2) == 0 {
			d = -d
		}
		e2 := e1 + d
		lo, hi := time.Date(1971, 1, 1, 0, 0, 0, 0, time.UTC).UnixNano(), time.Date(2200, 1, 1, 0, 0, 0, 0, time.UTC).UnixNano()
		if e2 < lo || e2 > hi {
			e2 = e1 - d
		}
		var mods []func(*vnet.Config)
		if rr.Intn(2) == 0 {
			// the ledger's last timestamp handed to Start is one fixed instant (behind both clocks) instead of
			// moving with the epoch: "the same sequence of calls" in the literal sense; nothing the node
			// does may depend on where its clock stands relative to that constant
			g := uint64(min(e1, e2)) - uint64(fifoConfig(s, e1).TPB)
			mods = append(mods, func(c *vnet.Config) { c.GenesisTs = g })
			r.Count("cases-with-fixed-ledger-timestamp", 1)
		}
		a := runFifo(s, e1, mods...)
		b := runFifo(s, e2, mods...)
		a2 := runFifo(s, e1, mods...)
		r.Eval(1)
		r.Count("executions", 3)
		if a.aborted != "" || b.aborted != "" || a2.aborted != "" {
			r.Count("runs-aborted", 1)
			PanicsToViolations(r, a.c, s)
			return
		}
		if a.cacheUsed || b.cacheUsed || a2.cacheUsed {
			r.Count("cases-skipped-cache-replay", 1)
			return
		}
		wit := func(what string) map[string]any {
			return map[string]any{"spec": s, "cfg": CfgSummary(a.c), "epoch1": time.Unix(0, e1).UTC().String(), "epoch2": time.Unix(0, e2).UTC().String(),
				"difference": what, "replay_cmd": fmt.Sprintf("VERIF_SEED=%d bin/check C14 %s -only %d", r.Seed, r.Tier, s.Idx)}
		}
		if n, what := diffTraces(a, b); n >= 0 {
			r.Violation("clock-shift-dependence", "same schedule under clocks shifted by "+time.Duration(e2-e1).String()+" behaves differently: "+what, wit(what))
		}
		// a fourth execution under an offset that is NOT a multiple of the timestamp increment: truncated
		// timestamps then legitimately differ by something else than the offset, but everything that is
		// not a timestamp - in particular every requested timer duration - must still be the same
		d3 := d + 1 + rr.Int63n(max(inc-1, 1))
		if inc == 1 || e1+d3 < lo || e1+d3 > hi {
			d3 = 0
		}
		if d3 != 0 {
			b3 := runFifo(s, e1+d3, mods...)
			r.Count("executions", 1)
			if b3.aborted == "" && !b3.cacheUsed {
				r.Count("cases-with-off-grid-offset", 1)
				if n, what := diffTraces(maskTimestamps(a), maskTimestamps(b3)); n >= 0 {
					r.Violation("clock-phase-dependence", "same schedule under clocks shifted by "+time.Duration(d3).String()+" (not a multiple of the timestamp increment "+time.Duration(inc).String()+") differs in more than timestamps: "+what, wit(what))
				}
			}
		}
		if n, what := diffTraces(a, a2); n >= 0 {
			r.Violation("wall-clock-dependence", "same schedule and same virtual epoch executed twice behaves differently: "+what, wit(what))
		}
		r.Count("compared-events", int64(len(a.c.Trace)))
		if a.c.Cfg.BaseHeight == 0 {
			r.Count("cases-on-a-fresh-chain", 1)
		}
		rtt := false
		for _, nd := range a.c.Nodes {
			if nd.D != nil && nd.D.VerifFlags().RTTAvg > 0 {
				rtt = true
			}
		}
		if rtt {
			r.Count("cases-with-rtt-measured", 1)
		}
		for _, e := range a.c.Trace {
			if e.Kind == vnet.KSend && e.P.T == dbft.ChangeViewType {
				r.Count("cases-with-change-view", 1)
				break
			}
		}
		now := time.Now().UnixNano()
		straddle := (e1 < now) != (e2 < now)
		if straddle {
			r.Count("cases-straddling-present", 1)
		}
		if a.decided >= 2 && rtt {
			r.Distinct(fmt.Sprintf("%s/%d/%v", mon.AbstractTrace(a.c), d, straddle))
			if r.WantSample() {
				r.Sample(map[string]any{"cfg": CfgSummary(a.c), "epoch1": time.Unix(0, e1).UTC().String(), "epoch2": time.Unix(0, e2).UTC().String(), "node0_stream": head(a.perNode[0], 25)})
			}
		}
	}
	if Only >= 0 {
		if Only < len(specs) {
			run(specs[Only])
		}
		return
	}
	Parallel(len(specs), func(i int) { run(specs[i]) })
	// the scripted view jump under shifted epochs and, with the first epoch, a second time later in wall time
	jrng := rand.New(rand.NewSource(r.Seed + 14))
	for i := 0; i < r.Pick(200, 5000); i++ {
		e1 := time.Date(1971+jrng.Intn(130), time.Month(1+jrng.Intn(12)), 1+jrng.Intn(28), jrng.Intn(24), jrng.Intn(60), jrng.Intn(60), 0, time.UTC).UnixNano()
		d := int64(1000) * (1 + jrng.Int63n(int64(1e15)))
		if jrng.Intn(2) == 0 {
			d = -d
		}
		if e1+d < time.Date(1971, 1, 1, 0, 0, 0, 0, time.UTC).UnixNano() || e1+d > time.Date(2200, 1, 1, 0, 0, 0, 0, time.UTC).UnixNano() {
			d = -d
		}
		a, b, a2 := runViewJump(e1, i), runViewJump(e1+d, i), runViewJump(e1, i)
		r.Eval(1)
		jumped := false
		for _, l := range a.perNode[3] {
			if len(l) > 15 && l[:15] == "send(ChangeView" && strings.Contains(l, "rsn=1") {
				jumped = true
			}
		}
		if jumped {
			r.Count("view-jumps-with-agreement-request", 1)
			r.Distinct(fmt.Sprintf("view-jump/%d", i%64))
		}
		w := map[string]any{"scenario": "view-jump", "k": i, "epoch1": time.Unix(0, e1).UTC().String(), "epoch2": time.Unix(0, e1+d).UTC().String(), "stream": head(a.perNode[3], 12)}
		if n, what := diffTraces(a, b); n >= 0 {
			w["difference"] = what
			r.Violation("clock-shift-dependence", "scripted view jump under clocks shifted by "+time.Duration(d).String()+" behaves differently: "+what, w)
		}
		if n, what := diffTraces(a, a2); n >= 0 {
			w["difference"] = what
			r.Violation("wall-clock-dependence", "scripted view jump executed twice with the same virtual epoch behaves differently: "+what, w)
		}
	}
	r.Floor("view-jumps-with-agreement-request", 100)
	r.Floor("compared-events", 50000)
	r.Floor("cases-with-rtt-measured", 100)
	r.Floor("cases-with-change-view", 30)
	r.Floor("cases-straddling-present", 20)
	r.Floor("cases-with-sub-second-offset", 50)
	r.Floor("cases-on-a-fresh-chain", 20)
	r.Floor("cases-with-fixed-ledger-timestamp", 500)
	r.Floor("cases-with-off-grid-offset", 500)
}

func head(l []string, n int) []string {
	if len(l) > n {
		return l[:n]
	}
	return l
}
