package checks

import (
	"github.com/nspcc-dev/dbft/verifh/ev"
	"github.com/nspcc-dev/dbft/verifh/mon"
	"github.com/nspcc-dev/dbft/verifh/vnet"
	"math/rand"
)

// C01: agreement. C02: decision certificate. Both are decided over the same
// hostile workloads; each check reports only its own property.
func runSafety(r *ev.Run, which string) {
	r.SetRule("one case = one complete multi-height cluster run of real dbft instances under a seeded hostile scheduler (profile, N, heights, anti-MEV mode, Byzantine/amnesia roles drawn from the seed); non-trivial = at least one honest decision was taken and at least one adversary move, duplicate, drop or early timeout took effect; distinct = distinct abstract traces (sequence of node, event kind, message type, view)")
	r.Assume("transport authenticity: adversaries cannot create payloads under honest validators' indices nor honest signatures (harness MAC signatures)")
	r.Assume("at most F=(N-1)/3 validators are Byzantine or amnesiac in every run")
	// directed scenarios of the recorded findings come first (deterministic KNOWN-FINDING lines on
	// the unchanged tree; they vanish by themselves if the defect is ever repaired)
	if Only < 0 {
		for _, f := range []func(...vnet.Monitor) *Built{DirectedFork, DirectedEarlyCommit, DirectedEarlyPreCommit, DirectedAMEVEarlyCommit, DirectedParkedPreCommits} {
			cert := mon.NewCert()
			agree := &mon.Agree{Cert: cert}
			b := f(cert, agree)
			if which == "C01" {
				Report(r, b, agree.Viols)
				Account(r, b, agree.Cnt)
			} else {
				Report(r, b, cert.Viols)
				Account(r, b, cert.Cnt)
			}
			SampleRun(r, b, "directed scenario "+b.Spec.Profile)
		}
	}
	if Only < 0 {
		// seeded variations of the equivocating-primary attack (arrival orders, missing transactions, anti-MEV, N)
		rng := rand.New(rand.NewSource(r.Seed + 77))
		for i := 0; i < r.Pick(600, 20000); i++ {
			cert := mon.NewCert()
			agree := &mon.Agree{Cert: cert}
			b := SplitPrimary(rng, cert, agree)
			if which == "C01" {
				Report(r, b, agree.Viols)
				Account(r, b, agree.Cnt)
			} else {
				Report(r, b, cert.Viols)
				Account(r, b, cert.Cnt)
			}
			if decisions(b.C) > 0 {
				r.Distinct(mon.AbstractTrace(b.C))
			}
		}
	}
	plan := []Plan{{"byz", 1500, 30000}, {"async-benign", 700, 15000}, {"missing-tx", 300, 6000}, {"sync-perm", 200, 5000}, {"amnesia-async", 300, 10000}}
	RunPlan(r, plan, func(s Spec) {
		cert := mon.NewCert()
		agree := &mon.Agree{Cert: cert}
		b := Build(s, cert, agree)
		b.Go()
		if which == "C01" {
			Report(r, b, agree.Viols)
			Account(r, b, agree.Cnt)
		} else {
			Report(r, b, cert.Viols)
			Account(r, b, cert.Cnt)
		}
		hostile := b.C.Stats["dup"]+b.C.Stats["drop"] > 0 || b.C.Adv != nil
		if decisions(b.C) > 0 && hostile {
			r.Distinct(mon.AbstractTrace(b.C))
			SampleRun(r, b, "non-trivial run")
		}
	})
	if which == "C01" {
		r.Floor("honest-decisions", 1000)
		r.Floor("heights-compared", 500)
	} else {
		r.Floor("block-certificates", 1000)
		r.Floor("commits-stored-without-header", 50)
		r.Floor("preblock-certificates", 100)
	}
}

func C01(r *ev.Run) { runSafety(r, "C01") }
func C02(r *ev.Run) { runSafety(r, "C02") }
