package checks

import "github.com/nspcc-dev/dbft/verifh/ev"

// Registry maps property ids to checks.
var Registry = map[string]func(*ev.Run){
	"C01": C01,
	"C02": C02,
}
