package checks

import "github.com/nspcc-dev/dbft/verifh/ev"

// Registry maps property ids to checks.
var Registry = map[string]func(*ev.Run){
	"C01": C01,
	"C02": C02,
	"C03": C03,
	"C04": C04,
	"C07": C07,
	"C08": C08,
	"C05": C05,
	"C09": C09,
	"C10": C10,
	"C11": C11,
	"C12": C12,
	"C13": C13,
	"C16": C16,
	"C14": C14,
	"C15": C15,
}
