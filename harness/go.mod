module github.com/nspcc-dev/dbft/verifh

go 1.24

require (
	github.com/nspcc-dev/dbft v0.0.0
	go.uber.org/zap v1.27.0
)

require go.uber.org/multierr v1.10.0 // indirect

replace github.com/nspcc-dev/dbft => /repo
