// Command c17 checks property C17: the multi-node simulation shipped with the
// library (internal/simulation), run fault-free, keeps deciding height after
// height at roughly the configured block interval, all nodes on the same
// blocks, for as long as it runs.
//
// Technique: runtime monitoring of the REAL program. The simulation is built
// from the tree under test (plain and with -race), run with several flag sets
// each in its own network namespace (the program listens on a fixed pprof
// port), and its zap log (stderr) is judged offline by package c17.
package main

import (
	"context"
	"errors"
	"flag"
	"fmt"
	"os"
	"os/exec"
	"path/filepath"
	"sort"
	"strings"
	"sync"
	"syscall"
	"time"

	mon "github.com/nspcc-dev/dbft/verifh/c17"
	"github.com/nspcc-dev/dbft/verifh/ev"
)

const (
	txCount       = 2000
	watchdogGrace = 30 * time.Second
	// a measured scheduling stall of this size during a run turns "too late /
	// too little" findings of that run into inconclusive (never the agreement,
	// contiguity, too-fast, watcher or race findings).
	starveLimit = 1500 * time.Millisecond
)

type runSpec struct {
	mon.Spec
	Rep int
	idx int
}

func (s runSpec) label() string {
	b := "norace"
	if s.Race {
		b = "race"
	}
	return fmt.Sprintf("%s [%s GOMAXPROCS=%d rep=%d]", s.Flags(), b, s.MaxProcs, s.Rep)
}

type runResult struct {
	spec     runSpec
	start    time.Time
	end      time.Time
	exit     int
	killed   bool // by the watchdog
	startErr error
	logPath  string
	log      *mon.Log
	parseErr error
}

var procChoices = []int{16, 4, 2, 8, 1}

// cases is a pure function of (tier, seed).
func cases(thorough bool, seed int64) []runSpec {
	var out []runSpec
	add := func(count, watchers, blocked, txblock int, d time.Duration, race bool, rep int) {
		i := len(out)
		mp := procChoices[(int(seed%5+5)+i+rep)%len(procChoices)]
		out = append(out, runSpec{Spec: mon.Spec{Count: count, Watchers: watchers, Blocked: blocked, TxBlock: txblock,
			TxCount: txCount, Duration: d, Race: race, MaxProcs: mp}, Rep: rep, idx: i})
	}
	if !thorough {
		add(4, 1, -1, 1, 23*time.Second, false, 0)
		add(7, 2, -1, 5, 23*time.Second, true, 0)
		add(1, 0, -1, 1, 23*time.Second, false, 0)
		add(4, 0, -1, 0, 23*time.Second, false, 0) // empty proposals only
		add(5, 1, -1, 1, 23*time.Second, false, 0) // the pool runs dry after two blocks
		out[len(out)-1].Spec.TxCount = 2
		return out
	}
	for rep := 0; rep < 2; rep++ {
		for _, race := range []bool{false, true} {
			for count := 1; count <= 7; count++ {
				for _, w := range []int{0, 2} {
					for _, tx := range []int{0, 1, 5} {
						add(count, w, -1, tx, 23*time.Second, race, rep)
						if count >= 4 {
							// Validator 0 is primary of height `count` (view 0), i.e. after
							// 5*(count-1) <= 30 s; its rejected proposal makes the others
							// change view at once (measured), so 45 s cover at least one
							// rejected primary for every count.
							add(count, w, 0, tx, 45*time.Second, race, rep)
						}
					}
				}
			}
		}
	}
	return out
}

func goBin() string {
	if g := os.Getenv("GO"); g != "" {
		return g
	}
	return "go"
}

func build(work string, race bool) (string, string, error) {
	out := filepath.Join(work, "sim")
	args := []string{"build"}
	if race {
		args = append(args, "-race")
		out += "-race"
	}
	args = append(args, "-o", out, "./internal/simulation")
	ctx, cancel := context.WithTimeout(context.Background(), 10*time.Minute)
	defer cancel()
	cmd := exec.CommandContext(ctx, goBin(), args...)
	cmd.Dir = ev.Tree()
	b, err := cmd.CombinedOutput()
	return out, string(b), err
}

func haveNetNS() bool {
	ctx, cancel := context.WithTimeout(context.Background(), 20*time.Second)
	defer cancel()
	return exec.CommandContext(ctx, "unshare", "-n", "--", "true").Run() == nil
}

func runOne(bin string, s runSpec, work string, netns bool) *runResult {
	res := &runResult{spec: s, logPath: filepath.Join(work, fmt.Sprintf("run%03d.log", s.idx))}
	args := []string{"-count", fmt.Sprint(s.Count), "-watchers", fmt.Sprint(s.Watchers), "-blocked", fmt.Sprint(s.Blocked),
		"-txblock", fmt.Sprint(s.TxBlock), "-txcount", fmt.Sprint(s.TxCount), "-duration", s.Duration.String()}
	var cmd *exec.Cmd
	ctx, cancel := context.WithCancel(context.Background())
	defer cancel()
	if netns {
		sh := `ip link set lo up 2>/dev/null; exec "$@"`
		cmd = exec.CommandContext(ctx, "unshare", append([]string{"-n", "--", "sh", "-c", sh, "sh", bin}, args...)...)
	} else {
		cmd = exec.CommandContext(ctx, bin, args...)
	}
	f, err := os.Create(res.logPath)
	if err != nil {
		res.startErr = err
		return res
	}
	defer f.Close()
	cmd.Stderr = f
	cmd.Stdout = f
	cmd.Dir = work
	cmd.Env = append(os.Environ(), fmt.Sprintf("GOMAXPROCS=%d", s.MaxProcs), "GORACE=halt_on_error=0")
	cmd.SysProcAttr = &syscall.SysProcAttr{Setpgid: true}
	res.start = time.Now()
	if err := cmd.Start(); err != nil {
		res.startErr = err
		return res
	}
	done := make(chan error, 1)
	go func() { done <- cmd.Wait() }()
	var werr error
	select {
	case werr = <-done:
	case <-time.After(s.Duration + watchdogGrace):
		res.killed = true
		_ = syscall.Kill(-cmd.Process.Pid, syscall.SIGKILL)
		_ = cmd.Process.Kill()
		werr = <-done
	}
	res.end = time.Now()
	if werr != nil {
		var ee *exec.ExitError
		if errors.As(werr, &ee) {
			res.exit = ee.ExitCode()
		} else {
			res.exit = -1
		}
	}
	_ = f.Sync()
	if lf, err := os.Open(res.logPath); err == nil {
		res.log, res.parseErr = mon.Parse(lf)
		lf.Close()
	} else {
		res.parseErr = err
	}
	return res
}

// stallMeter measures how late this process is woken up: a proxy for how
// starved the (shared) machine is while the simulations run.
type stallMeter struct {
	mu     sync.Mutex
	events []stall
	max    time.Duration
	stop   chan struct{}
}

type stall struct {
	at   time.Time
	late time.Duration
}

func startStallMeter() *stallMeter {
	m := &stallMeter{stop: make(chan struct{})}
	go func() {
		const tick = 50 * time.Millisecond
		for {
			t0 := time.Now()
			select {
			case <-m.stop:
				return
			case <-time.After(tick):
			}
			late := time.Since(t0) - tick
			m.mu.Lock()
			if late > m.max {
				m.max = late
			}
			if late > 250*time.Millisecond {
				m.events = append(m.events, stall{at: t0, late: late})
			}
			m.mu.Unlock()
		}
	}()
	return m
}

func (m *stallMeter) worst(from, to time.Time) time.Duration {
	m.mu.Lock()
	defer m.mu.Unlock()
	var w time.Duration
	for _, e := range m.events {
		if e.at.Add(e.late).After(from) && e.at.Before(to) && e.late > w {
			w = e.late
		}
	}
	return w
}

type sigGroup struct {
	what    string
	witness map[string]any
	others  []string
}

func main() {
	prop := flag.String("prop", "C17", "property id")
	flag.Parse()
	r := ev.New("C17")
	if *prop != "C17" {
		r.Inconclusive("engine c17 only checks C17, asked for " + *prop)
		r.Finish()
	}
	p := mon.DefaultParams
	r.SetRule("case = one run of the real internal/simulation binary (built from the tree under test, plain or -race) in its own " +
		"network namespace with flags (count, watchers, blocked, txblock, duration) and a GOMAXPROCS value, list fixed by (tier, seed); " +
		"judged offline from its zap log: same hash per height on all nodes, each block's prev = the node's previous block, per-node heights 1,2,3.. without gap/repeat, every non-blocked " +
		"validator reaches floor(D/5s)-2 (>=2) heights and still approves in the last 12 s, average approval gap >= 2.5 s, watch-only nodes " +
		"send nothing, no race report; non-trivial = every required validator decided >= 2 heights; distinct key = (flags, race, GOMAXPROCS, max height)")
	r.Assume("goroutine schedules are sampled (real scheduler, GOMAXPROCS in {1,2,4,8,16}, -race instrumentation changes timing), not enumerated")
	r.Assume("block time is the 5 s hard-wired in internal/consensus.New; the log lines 'approving block' (check.go) are the decision events")
	r.Assume("'too late / too little' findings are downgraded to inconclusive when this process measured a scheduling stall > 1.5 s during the run or the run overran its -duration by > 3 s")

	work := ev.Work()
	specs := cases(r.Thorough(), r.Seed)
	needRace, needPlain := false, false
	for _, s := range specs {
		if s.Race {
			needRace = true
		} else {
			needPlain = true
		}
	}

	// build both binaries from the tree under test (in parallel)
	bins := map[bool]string{}
	var bmu sync.Mutex
	var bwg sync.WaitGroup
	buildFailed := false
	for _, race := range []bool{false, true} {
		if (race && !needRace) || (!race && !needPlain) {
			continue
		}
		bwg.Add(1)
		go func(race bool) {
			defer bwg.Done()
			out, msg, err := build(work, race)
			bmu.Lock()
			defer bmu.Unlock()
			if err != nil {
				buildFailed = true
				r.Inconclusive(fmt.Sprintf("internal/simulation does not build (race=%v) from %s: %v: %s", race, ev.Tree(), err, firstLines(msg, 6)))
				return
			}
			bins[race] = out
		}(race)
	}
	bwg.Wait()
	if buildFailed {
		r.Finish()
	}

	netns := haveNetNS()
	par := r.Pick(3, 8)
	if !netns {
		par = 1 // fixed pprof port: strictly one instance at a time
		r.Assume("unshare -n unavailable: simulation instances were run strictly sequentially")
	}

	meter := startStallMeter()
	// longest runs first so that the tail of the pool is short
	order := append([]runSpec{}, specs...)
	sort.SliceStable(order, func(i, j int) bool { return order[i].Duration > order[j].Duration })
	results := make([]*runResult, len(specs))
	jobs := make(chan runSpec)
	var wg sync.WaitGroup
	for w := 0; w < par; w++ {
		wg.Add(1)
		go func() {
			defer wg.Done()
			for s := range jobs {
				results[s.idx] = runOne(bins[s.Race], s, work, netns)
			}
		}()
	}
	for _, s := range order {
		jobs <- s
	}
	close(jobs)
	wg.Wait()
	close(meter.stop)

	groups := map[string]*sigGroup{}
	var sigOrder []string
	for _, res := range results {
		s := res.spec
		r.Eval(1)
		r.Count("runs", 1)
		if s.Race {
			r.Count("runs_under_race", 1)
		}
		if s.Blocked >= 0 {
			r.Count("runs_with_blocked_validator", 1)
		}
		switch {
		case res.startErr != nil:
			r.Inconclusive(fmt.Sprintf("run %s could not be started: %v", s.label(), res.startErr))
			continue
		case res.killed:
			r.Count("runs_killed_by_watchdog", 1)
			r.Inconclusive(fmt.Sprintf("run %s did not exit within duration+%s and was killed by the watchdog", s.label(), watchdogGrace))
			continue
		case res.parseErr != nil || res.log == nil:
			r.Inconclusive(fmt.Sprintf("run %s: log unreadable: %v", s.label(), res.parseErr))
			continue
		case res.log.Entries == 0 && res.log.Crash != "" && !strings.Contains(res.log.Crash, "listen tcp") && !strings.Contains(res.log.Crash, "bind:"):
			// the program died (Go panic / fatal error) before it logged anything: it certainly does not extend its chain
			r.Count("runs_crashed", 1)
			if g := groups["sim-crash"]; g != nil {
				g.others = append(g.others, s.label())
			} else {
				groups["sim-crash"] = &sigGroup{what: "the simulation terminated abnormally before it logged anything: " + res.log.Crash + " [run: " + s.label() + "]",
					witness: map[string]any{"seed": r.Seed, "tier": r.Tier, "tree": ev.Tree(), "spec": s.Spec, "exit_code": res.exit,
						"replay_cmd": fmt.Sprintf("cd %s && go build %s-o /var/tmp/sim ./internal/simulation && GOMAXPROCS=%d unshare -n -- sh -c 'ip link set lo up; exec /var/tmp/sim %s'", ev.Tree(), raceFlag(s.Race), s.MaxProcs, s.Flags()),
						"log_tail": strings.Split(tail(res.logPath, 14), "\n")}}
				sigOrder = append(sigOrder, "sim-crash")
			}
			continue
		case res.log.Entries == 0:
			r.Inconclusive(fmt.Sprintf("run %s: empty log (exit code %d): %s", s.label(), res.exit, tail(res.logPath, 3)))
			continue
		}
		lg := res.log
		r.Count("log_entries", int64(lg.Entries))
		r.Count("race_reports", int64(lg.RaceTotal))
		r.Count("view_changes", int64(lg.ViewChanges))
		r.Count("rejected_payloads", int64(lg.Rejected))
		r.Count("channel_full_drops", int64(lg.ChanFull))
		for _, as := range lg.Approvals {
			r.Count("approvals_parsed", int64(len(as)))
		}

		sum, findings := mon.Check(s.Spec, lg, p)
		r.Count("heights_decided", int64(sum.MinMax))

		// abnormal termination of the program itself
		if lg.Crash != "" {
			if strings.Contains(lg.Crash, "listen tcp") || strings.Contains(lg.Crash, "bind:") {
				r.Inconclusive(fmt.Sprintf("run %s: pprof listener could not be set up (environment): %s", s.label(), lg.Crash))
				continue
			}
			findings = append(findings, mon.Finding{Sig: "sim-crash", What: "the simulation terminated abnormally: " + lg.Crash})
		} else if res.exit != 0 && !(res.exit == 66 && lg.RaceTotal > 0) {
			r.Inconclusive(fmt.Sprintf("run %s: unexpected exit code %d without panic: %s", s.label(), res.exit, tail(res.logPath, 3)))
			continue
		} else if lg.NCancelled != s.Count+s.Watchers {
			r.Inconclusive(fmt.Sprintf("run %s: %d of %d nodes logged 'context cancelled'", s.label(), lg.NCancelled, s.Count+s.Watchers))
			continue
		}

		stallW := meter.worst(res.start, res.end)
		overrun := time.Duration(sum.RunMs)*time.Millisecond - s.Duration
		starved := stallW > starveLimit || overrun > 3*time.Second
		if starved {
			r.Count("runs_starved", 1)
		}

		nontrivial := sum.MinMax >= 2
		if nontrivial {
			r.Count("runs_nontrivial", 1)
			r.Distinct(fmt.Sprintf("%s race=%v procs=%d maxh=%d", s.Flags(), s.Race, s.MaxProcs, sum.MaxHeight))
			if s.Blocked >= 0 && lg.ViewChanges > 0 && lg.Rejected > 0 {
				r.Count("runs_blocked_primary_replaced", 1)
			}
		}
		digest := map[string]any{"summary": sum, "exit_code": res.exit, "worst_scheduling_stall_ms": stallW.Milliseconds(), "rep": s.Rep}
		if nontrivial || len(findings) > 0 {
			r.Sample(digest)
		}

		for _, f := range findings {
			if f.Late && starved {
				r.Inconclusive(fmt.Sprintf("run %s: %s: %s -- but the machine was starved (stall %s, overrun %s), not judged",
					s.label(), f.Sig, f.What, stallW.Round(time.Millisecond), overrun.Round(time.Millisecond)))
				continue
			}
			g := groups[f.Sig]
			if g != nil {
				g.others = append(g.others, s.label())
				continue
			}
			w := map[string]any{
				"seed": r.Seed, "tier": r.Tier, "tree": ev.Tree(),
				"replay_cmd": fmt.Sprintf("cd %s && %s build %s-o /var/tmp/sim ./internal/simulation && GOMAXPROCS=%d unshare -n -- sh -c 'ip link set lo up; exec /var/tmp/sim %s' 2>sim.log; grep 'approving block' sim.log",
					ev.Tree(), "go", raceFlag(s.Race), s.MaxProcs, s.Flags()),
				"spec": s.Spec, "summary": sum, "exit_code": res.exit,
				"approvals_per_node":        approvals(lg),
				"validator_index_of_node":   lg.Index,
				"worst_scheduling_stall_ms": stallW.Milliseconds(),
				"log_tail":                  strings.Split(tail(res.logPath, 12), "\n"),
			}
			if strings.HasPrefix(f.Sig, "data-race:") {
				for _, rr := range lg.Races {
					if "data-race:"+rr.Key == f.Sig {
						w["race_report"] = strings.Split(rr.First, "\n")
					}
				}
			}
			groups[f.Sig] = &sigGroup{what: f.What + " [run: " + s.label() + "]", witness: w}
			sigOrder = append(sigOrder, f.Sig)
		}
	}
	for _, sig := range sigOrder {
		g := groups[sig]
		if len(g.others) > 0 {
			g.witness["other_runs_with_same_signature"] = g.others
			g.what += fmt.Sprintf(" (+%d more runs)", len(g.others))
			r.Count("findings_same_signature", int64(len(g.others)))
		}
		r.Violation(sig, g.what, g.witness)
	}
	r.Set("max_scheduling_stall_ms", meter.max.Milliseconds())
	r.Set("network_namespaces", netns)
	r.Set("planned_runs", len(specs))

	// coverage floors: the monitors must have seen enough
	r.Floor("approvals_parsed", int64(len(specs)))
	r.Floor("log_entries", int64(100*len(specs)))
	if needRace {
		r.Floor("runs_under_race", 1)
	}
	if r.Violations() == 0 {
		// on a tree that holds, (nearly) every run must have been a non-trivial one
		r.Floor("runs_nontrivial", int64(len(specs)-len(specs)/10))
		if r.Thorough() {
			r.Floor("runs_blocked_primary_replaced", 8)
		}
	}
	r.Finish()
}

func raceFlag(b bool) string {
	if b {
		return "-race "
	}
	return ""
}

func approvals(lg *mon.Log) map[string][]mon.Approval {
	out := map[string][]mon.Approval{}
	for id, as := range lg.Approvals {
		if len(as) > 12 {
			as = as[:12]
		}
		out[fmt.Sprint(id)] = as
	}
	return out
}

func firstLines(s string, n int) string {
	ls := strings.Split(strings.TrimSpace(s), "\n")
	if len(ls) > n {
		ls = ls[:n]
	}
	return strings.Join(ls, " | ")
}

func tail(path string, n int) string {
	b, err := os.ReadFile(path)
	if err != nil {
		return err.Error()
	}
	ls := strings.Split(strings.TrimRight(string(b), "\n"), "\n")
	if len(ls) > n {
		ls = ls[len(ls)-n:]
	}
	for i, l := range ls {
		if len(l) > 300 {
			ls[i] = l[:300] + "..."
		}
	}
	return strings.Join(ls, "\n")
}
