// Command c18 is the runtime-monitoring engine for property C18 (default timer).
//
// It drives REAL timer.Timer values (package github.com/nspcc-dev/dbft/timer of
// the tree under test) with generated sequences of Reset / Extend / sleep /
// non-blocking poll / blocking await, one owner goroutine per timer (the library
// uses the timer single-threaded), many timers in parallel, and checks every
// observation online against a shadow oracle kept on the monotonic clock:
//
//	lb = (time.Now() taken BEFORE the latest Reset call) + d + sum of Extend since
//
//	(1) never early / no stale expiry: every value received from C() is received
//	    at an instant (time.Now() taken AFTER the receive) >= lb of the LATEST
//	    reset; the value itself must not have been produced before the latest
//	    Reset call started; no more expiries are delivered in one reset epoch
//	    than were armed in it (1 + number of Extend calls).
//	(2) Height()/View() equal the arguments of the latest Reset after every op.
//	(3) after Reset(.,.,0) a non-blocking poll of C() succeeds at once.
//	(4) an owed expiry (armed by Reset, not yet read) is delivered: lateness is
//	    measured RELATIVE TO A CONTROL (a plain time.NewTimer for the same
//	    deadline observed by the same goroutine in the same select), a violation
//	    needs > 2 s relative lateness (or no delivery at all 5 s after the
//	    deadline) while a scheduler heartbeat saw no stall > 500 ms; otherwise the
//	    case is only counted as inconclusive-under-load.
//	    A Reset/Extend call that never returns is detected by the supervisor and
//	    reported as violation only if the goroutine dump proves the owner is
//	    parked inside the library (e.g. "chan send" in Timer.Reset).
//	(5) Extend moves lb by its argument in every state (running, expired-unread,
//	    expired-read, after zero-duration reset); only the property is asserted.
//
// The case list is a pure function of (tier, seed): sequence i is generated from
// PRNG(seed, i); counts are fixed per tier.
package main

import (
	"flag"
	"fmt"
	"math/rand"
	"os"
	"runtime"
	"sort"
	"strings"
	"sync"
	"sync/atomic"
	"time"

	"github.com/nspcc-dev/dbft/timer"
	"github.com/nspcc-dev/dbft/verifh/ev"
)

const (
	tolViolation = 2 * time.Second        // relative lateness that counts as lost wake-up
	lostGrace    = 3 * time.Second        // extra wait before declaring "never delivered"
	lateStat     = 100 * time.Millisecond // lateness reported as statistic only
	hbPeriod     = 5 * time.Millisecond
	hbStallLimit = 500 * time.Millisecond
	stuckAfter   = 10 * time.Second // supervisor: op without progress
	pendMargin   = 200 * time.Microsecond
	maxViolStop  = 5
)

// ---------------------------------------------------------------- operations

type Op struct {
	K   string `json:"op"` // reset | extend | sleep | poll | await
	H   uint32 `json:"h,omitempty"`
	V   byte   `json:"v,omitempty"`
	DUS int64  `json:"d_us"`          // duration in microseconds (reset/extend/sleep; await: listen time if nothing is owed)
	Cls string `json:"cls,omitempty"` // duration class
}

func (o Op) dur() time.Duration { return time.Duration(o.DUS) * time.Microsecond }

func us(lo, hi int, rng *rand.Rand) int64 { // uniform in [lo,hi] ms, microsecond granularity
	return int64(lo)*1000 + rng.Int63n(int64(hi-lo)*1000+1)
}

// genSeq generates sequence idx for seed: a pure function of its arguments.
func genSeq(seed int64, idx int) []Op {
	rng := rand.New(rand.NewSource(seed*1_000_003 + int64(idx)*7919 + 0x5eed))
	n := 5 + rng.Intn(11)
	ops := make([]Op, 0, n)
	var nomNow, nomDeadline time.Duration // nominal model, only used to aim sleeps past the deadline
	nomOwed := false
	var lastH uint32
	var lastV byte
	reset := func() {
		o := Op{K: "reset"}
		for {
			o.H = uint32(rng.Intn(1000))
			o.V = byte(rng.Intn(256))
			if o.H != lastH && o.V != lastV {
				break
			}
		}
		lastH, lastV = o.H, o.V
		switch p := rng.Intn(100); {
		case p < 36:
			o.DUS, o.Cls = 0, "0"
		case p < 70:
			o.DUS, o.Cls = us(1, 5, rng), "s"
		default:
			o.DUS, o.Cls = us(20, 80, rng), "l"
		}
		nomDeadline = nomNow + o.dur()
		nomOwed = true
		ops = append(ops, o)
	}
	extend := func() {
		o := Op{K: "extend"}
		switch p := rng.Intn(100); {
		case p < 15:
			o.DUS, o.Cls = 0, "0"
		case p < 50:
			o.DUS, o.Cls = us(0, 5, rng)+1, "s"
		default:
			o.DUS, o.Cls = us(6, 40, rng), "l"
		}
		nomDeadline += o.dur()
		ops = append(ops, o)
	}
	sleep := func() {
		o := Op{K: "sleep"}
		past := nomDeadline - nomNow
		if past < 0 {
			past = 0
		}
		past += time.Duration(us(1, 4, rng)) * time.Microsecond
		if rng.Intn(100) < 45 && past <= 130*time.Millisecond {
			o.DUS, o.Cls = int64(past/time.Microsecond), "p"
		} else {
			o.DUS = us(0, 30, rng)
			o.Cls = "m"
			if o.DUS < 5000 {
				o.Cls = "s"
			}
		}
		nomNow += o.dur()
		ops = append(ops, o)
	}
	reset()
	for len(ops) < n {
		pending := nomOwed && nomNow >= nomDeadline
		p := rng.Intn(100)
		if pending && rng.Intn(100) < 55 { // aim at the stale-expiry situations
			if p < 55 {
				reset()
			} else {
				extend()
			}
			continue
		}
		switch {
		case p < 24:
			reset()
		case p < 44:
			extend()
		case p < 66:
			sleep()
		case p < 80:
			ops = append(ops, Op{K: "poll"})
			if pending {
				nomOwed = false
			}
		default:
			ops = append(ops, Op{K: "await", DUS: us(0, 30, rng)})
			if nomOwed {
				if nomNow < nomDeadline {
					nomNow = nomDeadline
				}
				nomOwed = false
			} else {
				nomNow += time.Duration(ops[len(ops)-1].DUS) * time.Microsecond
			}
		}
	}
	return ops
}

// ---------------------------------------------------------------- counters

const (
	cReset0 = iota
	cResetShort
	cResetLong
	cExtend
	cSleep
	cPoll
	cAwaitBlocking
	cListen
	cExpiries
	cZeroFires
	cStaleResetRuntime
	cStaleResetZero
	cExtendPendingRearm
	cExtendPendingNoRearm
	cExtendAfterRead
	cExtendAfterZeroUnread
	cReadAfterStaleCandidate
	cLate100ms
	cInconclusiveLoad
	cHVChecks
	cPollEmpty
	nCounters
)

var counterNames = [nCounters]string{
	"ops_reset_zero", "ops_reset_short", "ops_reset_long", "ops_extend", "ops_sleep", "ops_poll",
	"ops_await_blocking", "ops_await_listen", "expiries_received", "zero_duration_fires",
	"stale_candidate_reset_runtime_pending", "stale_candidate_reset_zero_pending",
	"stale_candidate_extend_pending_rearm", "stale_candidate_extend_pending_norearm",
	"extend_after_expiry_read", "extend_after_zero_reset_unread", "reads_after_stale_candidate",
	"late_over_100ms", "inconclusive_under_load_cases", "height_view_checks", "polls_empty",
}

// ---------------------------------------------------------------- heartbeat

var (
	t0            = time.Now()
	hbLast        atomic.Int64 // ns since t0 of last heartbeat wake-up
	hbLastBigEnd  atomic.Int64 // ns since t0 of the end of the last stall > hbStallLimit (0: none)
	hbMaxStall    atomic.Int64
	hbBigStalls   atomic.Int64
	violationsNow atomic.Int64
)

func since0() int64 { return int64(time.Since(t0)) }

func heartbeat() {
	prev := since0()
	hbLast.Store(prev)
	for {
		time.Sleep(hbPeriod)
		now := since0()
		stall := now - prev - int64(hbPeriod)
		if stall > hbMaxStall.Load() {
			hbMaxStall.Store(stall)
		}
		if stall > int64(hbStallLimit) {
			hbLastBigEnd.Store(now)
			hbBigStalls.Add(1)
		}
		hbLast.Store(now)
		prev = now
	}
}

// stalledSince tells whether the scheduler heartbeat observed (or is currently in)
// a stall > hbStallLimit at any time since from (ns since t0).
func stalledSince(from int64) bool {
	if e := hbLastBigEnd.Load(); e != 0 && e >= from {
		return true
	}
	return since0()-hbLast.Load() > int64(hbStallLimit)
}

// ---------------------------------------------------------------- sequence run

type traceEnt struct {
	I      int    `json:"i"`
	Op     string `json:"op"`
	AtUS   int64  `json:"at_us"`             // start of the op, since sequence start
	LbUS   int64  `json:"lb_us"`             // oracle lower bound after the op, since sequence start
	Got    *bool  `json:"got,omitempty"`     // poll/await: value received
	RecvUS int64  `json:"recv_us,omitempty"` // instant of the receive, since sequence start
	Note   string `json:"note,omitempty"`
	Done   bool   `json:"done"`
}

type seqRun struct {
	idx        int
	ops        []Op
	trace      []traceEnt
	start      time.Time
	start0     int64
	shape      strings.Builder
	cnt        [nCounters]int64
	late       []int64 // lateness samples (us) of owed expiries
	nontrivial bool

	t         *timer.Timer
	before    time.Time
	lb        time.Time
	owed      bool
	lastZero  bool          // latest reset had d == 0
	extSum    time.Duration // sum of Extend arguments since the latest reset
	reads     int
	extends   int
	staleCand bool // a Reset/Extend of this epoch crossed a pending unread expiry
	h         uint32
	v         byte

	awaitEarly bool // running blocking await started before the deadline
	failed     bool
}

type worker struct {
	mu      sync.Mutex
	cur     *seqRun
	opStart atomic.Int64 // ns since t0 of the start of the running op, 0 when idle
	opLib   atomic.Bool  // running op is a library call (Reset/Extend)
	opIdx   atomic.Int64
}

type engine struct {
	r    *ev.Run
	seed int64
	next atomic.Int64
	n    int
	stop atomic.Bool

	mu       sync.Mutex
	cnt      [nCounters]int64
	late     []int64
	seqsDone int64
}

func (e *engine) witness(s *seqRun, opi int, detail map[string]any) map[string]any {
	w := map[string]any{
		"seed": e.seed, "tier": e.r.Tier, "seq_index": s.idx, "ops": s.ops, "failing_op": opi,
		"trace": s.trace, "replay": fmt.Sprintf("VERIF_SEED=%d bin/check C18 %s -seq %d", e.seed, e.r.Tier, s.idx),
		"go": runtime.Version(), "race": raceEnabled,
	}
	for k, v := range detail {
		w[k] = v
	}
	return w
}

func (e *engine) violate(s *seqRun, opi int, sig, what string, detail map[string]any) {
	s.failed = true
	n := violationsNow.Add(1)
	if n >= maxViolStop {
		e.stop.Store(true)
	}
	if n > maxViolStop {
		return // enough witnesses
	}
	e.r.Violation(sig, what, e.witness(s, opi, detail))
}

// zeroFresh: latest reset had zero duration, nothing read and no Extend call since.
func (s *seqRun) zeroFresh() bool { return s.owed && s.lastZero && s.extends == 0 }

// zeroPending: the value sent by a zero-duration reset is still unread and visible
// (only zero-length extensions since, which never re-arm).
func (s *seqRun) zeroPending() bool { return s.owed && s.lastZero && s.extSum == 0 }

func hasMono(v time.Time) bool { return v != v.Round(0) }

// onRecv checks one value received from C() at instant r (taken after the receive).
func (e *engine) onRecv(s *seqRun, opi int, v, r time.Time, rel time.Duration, haveCtl bool) {
	s.cnt[cExpiries]++
	s.nontrivial = true
	wasOwed := s.owed
	if s.staleCand {
		s.cnt[cReadAfterStaleCandidate]++
	}
	if r.Before(s.lb) {
		what := fmt.Sprintf("expiry delivered %v before latest reset instant + duration + extensions", s.lb.Sub(r))
		sig := "early-expiry"
		if s.staleCand {
			sig = "stale-expiry-after-reset"
			what += " (an earlier expiry was pending unread when the latest Reset/Extend was issued)"
		}
		e.violate(s, opi, sig, what, map[string]any{"early_by_ns": int64(s.lb.Sub(r))})
		return
	}
	if hasMono(v) && v.Before(s.before) {
		e.violate(s, opi, "stale-expiry-value",
			fmt.Sprintf("expiry value produced %v before the latest Reset call started was delivered after it", s.before.Sub(v)),
			map[string]any{"older_by_ns": int64(s.before.Sub(v))})
		return
	}
	s.reads++
	if s.reads > 1+s.extends {
		e.violate(s, opi, "extra-expiry-after-reset",
			fmt.Sprintf("%d expiries delivered after the latest reset which armed only %d (1 reset + %d extends): one was armed earlier", s.reads, 1+s.extends, s.extends),
			nil)
		return
	}
	if wasOwed && haveCtl { // blocking await (lateness statistic only if it started before the deadline)
		lat := r.Sub(s.lb)
		if s.awaitEarly {
			s.late = append(s.late, int64(lat/time.Microsecond))
			if lat > lateStat {
				s.cnt[cLate100ms]++
			}
		}
		if rel > tolViolation {
			if stalledSince(s.start0) {
				s.cnt[cInconclusiveLoad]++
			} else {
				e.violate(s, opi, "late-beyond-tolerance",
					fmt.Sprintf("owed expiry delivered %v after a control timer for the same deadline fired (tolerance %v), no scheduler stall observed", rel, tolViolation),
					map[string]any{"relative_lateness_ns": int64(rel), "absolute_lateness_ns": int64(lat)})
				return
			}
		}
	}
	s.owed = false
}

func (e *engine) runSeq(w *worker, idx int) {
	s := &seqRun{idx: idx, ops: genSeq(e.seed, idx), t: timer.New()}
	s.start = time.Now()
	s.start0 = since0()
	w.mu.Lock()
	w.cur = s
	w.mu.Unlock()
	off := func(t time.Time) int64 { return int64(t.Sub(s.start) / time.Microsecond) }

	for i, op := range s.ops {
		w.mu.Lock()
		s.trace = append(s.trace, traceEnt{I: i, Op: op.K, AtUS: off(time.Now())})
		w.mu.Unlock()
		note := ""
		var got *bool
		var recvAt time.Time
		setGot := func(b bool) { got = &b }
		w.opIdx.Store(int64(i))

		switch op.K {
		case "reset":
			now := time.Now()
			cross := ""
			if s.owed {
				if s.zeroPending() {
					s.cnt[cStaleResetZero]++
					cross = "!"
				} else if now.Sub(s.lb) >= pendMargin {
					s.cnt[cStaleResetRuntime]++
					cross = "!"
				}
			}
			switch op.Cls {
			case "0":
				s.cnt[cReset0]++
			case "s":
				s.cnt[cResetShort]++
			default:
				s.cnt[cResetLong]++
			}
			d := op.dur()
			w.opLib.Store(true)
			w.opStart.Store(since0())
			before := time.Now()
			s.t.Reset(op.H, op.V, d)
			w.opStart.Store(0)
			w.opLib.Store(false)
			s.before = before
			s.lb = before.Add(d)
			s.owed = true
			s.reads, s.extends, s.extSum = 0, 0, 0
			s.lastZero = d == 0
			s.h, s.v = op.H, op.V
			s.staleCand = cross != ""
			if cross != "" {
				s.nontrivial = true
				note = "issued while an expiry was pending unread"
			}
			s.shape.WriteString("R" + op.Cls + cross + " ")
		case "extend":
			now := time.Now()
			cross := ""
			d := op.dur()
			if s.owed {
				zeroUnread := s.zeroPending()
				if zeroUnread {
					s.cnt[cExtendAfterZeroUnread]++
				}
				if zeroUnread || now.Sub(s.lb) >= pendMargin {
					cross = "!"
					if s.lb.Add(d).After(now) {
						s.cnt[cExtendPendingRearm]++
						note = "issued while an expiry was pending unread; deadline moves into the future"
					} else {
						s.cnt[cExtendPendingNoRearm]++
						note = "issued while an expiry was pending unread; deadline stays in the past"
					}
				}
			} else {
				s.cnt[cExtendAfterRead]++
			}
			s.cnt[cExtend]++
			w.opLib.Store(true)
			w.opStart.Store(since0())
			s.t.Extend(d)
			w.opStart.Store(0)
			w.opLib.Store(false)
			s.lb = s.lb.Add(d)
			s.extends++
			s.extSum += d
			if cross != "" {
				s.staleCand = true
				s.nontrivial = true
			}
			s.shape.WriteString("E" + op.Cls + cross + " ")
		case "sleep":
			s.cnt[cSleep]++
			w.opStart.Store(since0())
			time.Sleep(op.dur())
			w.opStart.Store(0)
			s.shape.WriteString("S" + op.Cls + " ")
		case "poll":
			s.cnt[cPoll]++
			mustFire := s.zeroFresh()
			select {
			case v := <-s.t.C():
				r := time.Now()
				recvAt = r
				setGot(true)
				if mustFire {
					s.cnt[cZeroFires]++
				}
				e.onRecv(s, i, v, r, 0, false)
				s.shape.WriteString("P+ ")
			default:
				setGot(false)
				s.cnt[cPollEmpty]++
				if mustFire {
					e.violate(s, i, "zero-duration-not-immediate",
						"non-blocking read of C() after Reset(h,v,0) (no Extend, nothing read since) found no expiry", nil)
				}
				s.shape.WriteString("P- ")
			}
		case "await":
			if s.owed {
				s.cnt[cAwaitBlocking]++
				zero := s.zeroFresh()
				ok, r := e.awaitOwed(w, s, i)
				setGot(ok)
				if ok {
					recvAt = r
					if zero && !s.failed {
						s.cnt[cZeroFires]++
					}
				}
				s.shape.WriteString("A+ ")
			} else {
				s.cnt[cListen]++
				w.opStart.Store(since0())
				lt := time.NewTimer(op.dur())
				select {
				case v := <-s.t.C():
					r := time.Now()
					recvAt = r
					setGot(true)
					e.onRecv(s, i, v, r, 0, false)
					s.shape.WriteString("a+ ")
				case <-lt.C:
					setGot(false)
					s.shape.WriteString("a- ")
				}
				lt.Stop()
				w.opStart.Store(0)
			}
		}
		// (2) height and view of the latest reset, after every op
		if !s.failed {
			s.cnt[cHVChecks]++
			if gh, gv := s.t.Height(), s.t.View(); gh != s.h || gv != s.v {
				e.violate(s, i, "height-view-not-latest-reset",
					fmt.Sprintf("Height()/View() = %d/%d, latest Reset was (%d,%d)", gh, gv, s.h, s.v),
					map[string]any{"got_height": gh, "got_view": gv, "want_height": s.h, "want_view": s.v})
			}
		}
		w.mu.Lock()
		te := &s.trace[len(s.trace)-1]
		te.LbUS = off(s.lb)
		te.Got = got
		if !recvAt.IsZero() {
			te.RecvUS = off(recvAt)
		}
		te.Note = note
		te.Done = true
		w.mu.Unlock()
		if s.failed {
			break
		}
	}
	w.mu.Lock()
	w.cur = nil
	w.mu.Unlock()

	e.r.Eval(1)
	if s.nontrivial && !s.failed {
		e.r.Distinct(strings.TrimSpace(s.shape.String()))
	}
	if !s.failed && s.idx < 3 {
		e.r.Sample(map[string]any{"seq_index": s.idx, "ops": s.ops, "trace": s.trace, "shape": strings.TrimSpace(s.shape.String())})
	}
	e.mu.Lock()
	for k := range s.cnt {
		e.cnt[k] += s.cnt[k]
	}
	e.late = append(e.late, s.late...)
	e.seqsDone++
	e.mu.Unlock()
}

// awaitOwed blocks until the owed expiry arrives, observing a control timer for
// the same deadline in the same select, with a watchdog far beyond the tolerance.
func (e *engine) awaitOwed(w *worker, s *seqRun, opi int) (bool, time.Time) {
	w.opStart.Store(since0())
	defer w.opStart.Store(0)
	rem := time.Until(s.lb)
	s.awaitEarly = rem > 0
	if rem < 0 {
		rem = 0
	}
	ctl := time.NewTimer(rem)
	defer ctl.Stop()
	wd := time.NewTimer(rem + tolViolation + lostGrace)
	defer wd.Stop()
	ctlC := ctl.C
	var c time.Time
	for {
		select {
		case v := <-s.t.C(): // C() re-evaluated at every read, as the documented event loop does
			r := time.Now()
			var rel time.Duration
			if !c.IsZero() {
				rel = r.Sub(c)
			}
			e.onRecv(s, opi, v, r, rel, true)
			return true, r
		case <-ctlC:
			c = time.Now()
			ctlC = nil
		case <-wd.C:
			select {
			case v := <-s.t.C():
				r := time.Now()
				var rel time.Duration
				if !c.IsZero() {
					rel = r.Sub(c)
				}
				e.onRecv(s, opi, v, r, rel, true)
				return true, r
			default:
			}
			if stalledSince(s.start0) {
				s.cnt[cInconclusiveLoad]++
				s.failed = true // abandon the sequence, no verdict from it
				return false, time.Time{}
			}
			e.violate(s, opi, "owed-expiry-not-delivered",
				fmt.Sprintf("expiry armed by the latest Reset (+Extends) not delivered %v after its deadline although a plain time.Timer for deadline+%v fired; no scheduler stall observed",
					time.Since(s.lb), tolViolation+lostGrace),
				map[string]any{"waited_past_deadline_ns": int64(time.Since(s.lb))})
			return false, time.Time{}
		}
	}
}

// ---------------------------------------------------------------- supervisor

// parkedInLibrary returns the goroutine dump blocks of goroutines that are not
// running/runnable and have a frame inside the timer package under test.
func parkedInLibrary() []string {
	buf := make([]byte, 8<<20)
	buf = buf[:runtime.Stack(buf, true)]
	var out []string
	for _, b := range strings.Split(string(buf), "\n\n") {
		nl := strings.IndexByte(b, '\n')
		if nl < 0 {
			continue
		}
		hdr := b[:nl]
		if !strings.HasPrefix(hdr, "goroutine ") {
			continue
		}
		if strings.Contains(hdr, "[running") || strings.Contains(hdr, "[runnable") || strings.Contains(hdr, "[syscall") {
			continue
		}
		if strings.Contains(b, "github.com/nspcc-dev/dbft/timer.") {
			out = append(out, b)
		}
	}
	return out
}

func pct(sorted []int64, p float64) int64 {
	if len(sorted) == 0 {
		return 0
	}
	i := int(p * float64(len(sorted)-1))
	return sorted[i]
}

func main() {
	prop := flag.String("prop", "C18", "property id")
	only := flag.Int("seq", -1, "run only this sequence index (replay)")
	flag.Parse()
	if *prop != "C18" {
		fmt.Fprintf(os.Stderr, "c18: unsupported property %s\n", *prop)
		os.Exit(2)
	}
	r := ev.New("C18")
	nSeq := r.Pick(12288, 122880)
	nWorkers := r.Pick(128, 256)
	e := &engine{r: r, seed: r.Seed, n: nSeq}
	r.SetRule("sequence i = PRNG(seed,i): Reset first, then 4-14 ops drawn from Reset(d in {0, 1-5ms, 20-80ms}) / Extend(0-40ms) / " +
		"sleep(0-30ms or just past the nominal deadline) / non-blocking poll of C() / blocking await of C(); real timer.Timer, one owner goroutine per timer, " +
		fmt.Sprintf("%d timers in parallel; ", nWorkers) +
		"non-trivial = at least one expiry was received or a Reset/Extend was issued while an expiry was pending unread; " +
		"distinct key = shape (op kinds with duration classes, '!' where a pending unread expiry was crossed, +/- whether a read returned a value)")
	r.Assume("time.Now() monotonic readings and runtime timers share one clock (Go runtime); Go " + runtime.Version() + " synchronous timer channels (go.mod go >= 1.23)")
	r.Assume("lateness is judged relative to a plain time.NewTimer control observed by the same goroutine; cases during which a 5 ms heartbeat goroutine stalled > 500 ms are not judged")
	r.Assume("the timer is driven from one goroutine per instance, as dbft does; concurrent use is out of scope of C18")
	r.Set("race_detector", raceEnabled)
	r.Set("timers_in_parallel", nWorkers)

	go heartbeat()

	workers := make([]*worker, nWorkers)
	var wg sync.WaitGroup
	if *only >= 0 {
		nWorkers = 1
		workers = workers[:1]
	}
	for i := range workers {
		workers[i] = &worker{}
		wg.Add(1)
		go func(w *worker) {
			defer wg.Done()
			if *only >= 0 {
				e.runSeq(w, *only)
				return
			}
			for !e.stop.Load() {
				idx := int(e.next.Add(1) - 1)
				if idx >= nSeq {
					return
				}
				e.runSeq(w, idx)
			}
		}(workers[i])
	}
	done := make(chan struct{})
	go func() { wg.Wait(); close(done) }()

	hardLimit := time.Duration(r.Pick(20, 60)) * time.Minute
	tick := time.NewTicker(250 * time.Millisecond)
	slowReported := false
	hung := false
supervise:
	for {
		select {
		case <-done:
			break supervise
		case <-tick.C:
		}
		now := since0()
		if time.Duration(now) > hardLimit {
			r.Inconclusive(fmt.Sprintf("engine did not finish within %v (machine overloaded?)", hardLimit))
			hung = true
			break supervise
		}
		var stuckLib []*worker
		for _, w := range workers {
			st := w.opStart.Load()
			if st == 0 || now-st < int64(stuckAfter) {
				continue
			}
			if w.opLib.Load() {
				stuckLib = append(stuckLib, w)
			} else if now-st > int64(2*time.Minute) && !slowReported {
				slowReported = true
				r.Count("ops_slower_than_2min", 1)
			}
		}
		if len(stuckLib) == 0 {
			continue
		}
		parked := parkedInLibrary()
		if len(parked) == 0 {
			continue // slow, not parked inside the library: keep waiting (hard limit applies)
		}
		// Proven: goroutines parked inside Timer.Reset/Extend for > 10 s. Only the owner has a
		// reference to the timer, so nothing can ever wake them: the call never returns.
		k := len(stuckLib)
		if len(parked) < k {
			k = len(parked)
		}
		if k > 3 {
			k = 3
		}
		for i := 0; i < k; i++ {
			w := stuckLib[i]
			w.mu.Lock()
			s := w.cur
			if s != nil && w.opStart.Load() != 0 {
				opi := int(w.opIdx.Load())
				stack := parked[i]
				if len(stack) > 1500 {
					stack = stack[:1500]
				}
				r.Violation("library-call-never-returns",
					fmt.Sprintf("%s call on the timer did not return within %v; goroutine dump shows it parked inside the timer package (%s)",
						s.ops[opi].K, stuckAfter, strings.SplitN(parked[i], "\n", 2)[0]),
					e.witness(s, opi, map[string]any{"goroutine": stack, "stuck_workers": len(stuckLib), "parked_goroutines": len(parked)}))
			}
			w.mu.Unlock()
		}
		r.Eval(int64(len(stuckLib)))
		hung = true
		break supervise
	}

	e.mu.Lock()
	for k, n := range e.cnt {
		r.Count(counterNames[k], n)
	}
	lat := append([]int64(nil), e.late...)
	seqsDone := e.seqsDone
	e.mu.Unlock()
	sort.Slice(lat, func(i, j int) bool { return lat[i] < lat[j] })
	r.Set("lateness_us", map[string]int64{"n": int64(len(lat)), "p50": pct(lat, 0.5), "p90": pct(lat, 0.9), "p99": pct(lat, 0.99), "max": pct(lat, 1)})
	r.Set("heartbeat", map[string]int64{"max_stall_us": hbMaxStall.Load() / 1000, "stalls_over_500ms": hbBigStalls.Load()})
	r.Count("sequences_completed", seqsDone)

	if *only < 0 && !hung && r.Violations() == 0 {
		q := func(quick, thorough int64) int64 {
			if r.Thorough() {
				return thorough
			}
			return quick
		}
		r.Floor("sequences_completed", int64(nSeq))
		r.Floor("ops_reset_zero", q(5000, 50000))
		r.Floor("ops_reset_short", q(5000, 50000))
		r.Floor("ops_reset_long", q(4000, 40000))
		r.Floor("ops_extend", q(8000, 80000))
		r.Floor("ops_sleep", q(7000, 70000))
		r.Floor("ops_poll", q(4000, 40000))
		r.Floor("ops_await_blocking", q(4000, 40000))
		r.Floor("expiries_received", q(5000, 50000))
		r.Floor("zero_duration_fires", q(800, 8000))
		r.Floor("stale_candidate_reset_runtime_pending", q(1000, 10000))
		r.Floor("stale_candidate_reset_zero_pending", q(2000, 20000))
		r.Floor("stale_candidate_extend_pending_rearm", q(2000, 20000))
		r.Floor("stale_candidate_extend_pending_norearm", q(700, 7000))
		r.Floor("extend_after_expiry_read", q(2000, 20000))
		r.Floor("extend_after_zero_reset_unread", q(1500, 15000))
		r.Floor("reads_after_stale_candidate", q(1500, 15000))
		if n := r.Counter("inconclusive_under_load_cases"); n > int64(nSeq/50) {
			r.Inconclusive(fmt.Sprintf("%d sequences could not be judged because the scheduler heartbeat stalled > %v", n, hbStallLimit))
		}
	}
	r.Finish() // os.Exit: does not wait for goroutines parked in a library call
}
