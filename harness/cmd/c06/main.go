// Command c06 checks quorum arithmetic and primary rotation of the real
// dbft.Context for every validator count 1..65535, every view 0..255 and a
// list of heights including the 32-bit boundaries, against plain integer
// arithmetic.
package main

import (
	"flag"
	"fmt"
	"math/rand"
	"runtime"
	"sync"
	"time"

	"github.com/nspcc-dev/dbft"
	"github.com/nspcc-dev/dbft/verifh/ev"
	"github.com/nspcc-dev/dbft/verifh/vnet"
)

type timerStub struct{}

func (timerStub) Now() time.Time                    { return time.Unix(1700000000, 0) }
func (timerStub) Reset(uint32, byte, time.Duration) {}
func (timerStub) Extend(time.Duration)              {}
func (timerStub) Height() uint32                    { return 0 }
func (timerStub) View() byte                        { return 0 }
func (timerStub) C() <-chan time.Time               { return nil }

// newInstance starts a real instance with n opaque validators at ledger height cur.
func newInstance(n int, cur *uint32, pubs []dbft.PublicKey) *dbft.DBFT[vnet.H] {
	d, err := dbft.New[vnet.H](
		dbft.WithTimer[vnet.H](timerStub{}),
		dbft.WithGetKeyPair[vnet.H](func([]dbft.PublicKey) (int, dbft.PrivateKey, dbft.PublicKey) { return -1, nil, nil }),
		dbft.WithCurrentHeight[vnet.H](func() uint32 { return *cur }),
		dbft.WithCurrentBlockHash[vnet.H](func() vnet.H { return vnet.H{} }),
		dbft.WithGetValidators[vnet.H](func(...dbft.Transaction[vnet.H]) []dbft.PublicKey { return pubs[:n] }),
		dbft.WithNewBlockFromContext[vnet.H](func(*dbft.Context[vnet.H]) dbft.Block[vnet.H] { return nil }),
		dbft.WithNewConsensusPayload[vnet.H](func(*dbft.Context[vnet.H], dbft.MessageType, any) dbft.ConsensusPayload[vnet.H] { return nil }),
		dbft.WithNewPrepareRequest[vnet.H](func(uint64, uint64, []vnet.H) dbft.PrepareRequest[vnet.H] { return nil }),
		dbft.WithNewPrepareResponse[vnet.H](func(vnet.H) dbft.PrepareResponse[vnet.H] { return nil }),
		dbft.WithNewChangeView[vnet.H](func(byte, dbft.ChangeViewReason, uint64) dbft.ChangeView { return nil }),
		dbft.WithNewCommit[vnet.H](func([]byte) dbft.Commit { return nil }),
		dbft.WithNewRecoveryRequest[vnet.H](func(uint64) dbft.RecoveryRequest { return nil }),
		dbft.WithNewRecoveryMessage[vnet.H](func() dbft.RecoveryMessage[vnet.H] { return nil }),
	)
	if err != nil {
		panic(err)
	}
	d.Start(0)
	return d
}

func refPrimary(h uint32, v byte, n int) int {
	return int(((int64(h)-int64(v))%int64(n) + int64(n)) % int64(n))
}

func main() {
	flag.String("prop", "C06", "")
	flag.Parse()
	r := ev.New("C06")
	r.SetRule("one case = (N, height, view) evaluated on a real dbft.Context initialised through Start with N validators and the height taken from the CurrentHeight callback; all N in 1..65535 x all views 0..255 x the listed heights are enumerated; a 1% seeded sample (and every N<=64) is re-initialised through Reset for every height instead of moving BlockIndex; distinct non-trivial = distinct (N, height class) pairs with N>=2")
	r.Assume("the enumeration moves the exported BlockIndex field between heights after one real Start per N; a seeded sample goes through Reset with the height coming from the callback")
	heights := []uint32{0, 1, 2, 255, 256, 65535, 65536, 1<<31 - 1, 1 << 31, 1<<32 - 256, 1<<32 - 2, 1<<32 - 1}
	if r.Thorough() {
		rng := rand.New(rand.NewSource(r.Seed))
		for i := 0; i < 20; i++ {
			heights = append(heights, rng.Uint32())
		}
	}
	const maxN = 65535
	pubs := make([]dbft.PublicKey, maxN)
	for i := range pubs {
		pubs[i] = i
	}
	var mu sync.Mutex
	fail := func(sig, what string, w map[string]any) {
		mu.Lock()
		defer mu.Unlock()
		r.Violation(sig, what, w)
	}
	type job struct{ lo, hi int }
	jobs := make(chan job, 256)
	var wg sync.WaitGroup
	var total, resets int64
	for w := 0; w < runtime.NumCPU(); w++ {
		wg.Add(1)
		go func(w int) {
			defer wg.Done()
			var evals, rs int64
			// one long-lived instance per worker whose validator count changes with every Reset
			pn, pcur := 1, uint32(0)
			persistent, _ := dbft.New[vnet.H](
				dbft.WithTimer[vnet.H](timerStub{}),
				dbft.WithGetKeyPair[vnet.H](func([]dbft.PublicKey) (int, dbft.PrivateKey, dbft.PublicKey) { return -1, nil, nil }),
				dbft.WithCurrentHeight[vnet.H](func() uint32 { return pcur }),
				dbft.WithCurrentBlockHash[vnet.H](func() vnet.H { return vnet.H{} }),
				dbft.WithGetValidators[vnet.H](func(...dbft.Transaction[vnet.H]) []dbft.PublicKey { return pubs[:pn] }),
				dbft.WithNewBlockFromContext[vnet.H](func(*dbft.Context[vnet.H]) dbft.Block[vnet.H] { return nil }),
				dbft.WithNewConsensusPayload[vnet.H](func(*dbft.Context[vnet.H], dbft.MessageType, any) dbft.ConsensusPayload[vnet.H] { return nil }),
				dbft.WithNewPrepareRequest[vnet.H](func(uint64, uint64, []vnet.H) dbft.PrepareRequest[vnet.H] { return nil }),
				dbft.WithNewPrepareResponse[vnet.H](func(vnet.H) dbft.PrepareResponse[vnet.H] { return nil }),
				dbft.WithNewChangeView[vnet.H](func(byte, dbft.ChangeViewReason, uint64) dbft.ChangeView { return nil }),
				dbft.WithNewCommit[vnet.H](func([]byte) dbft.Commit { return nil }),
				dbft.WithNewRecoveryRequest[vnet.H](func(uint64) dbft.RecoveryRequest { return nil }),
				dbft.WithNewRecoveryMessage[vnet.H](func() dbft.RecoveryMessage[vnet.H] { return nil }),
			)
			persistent.Start(0)
			prng := rand.New(rand.NewSource(r.Seed + int64(w)))
			for j := range jobs {
				for n := j.lo; n < j.hi; n++ {
					func() {
						// a panic of the library for some validator count is a violation ("always a valid index"), not a crash of the engine
						defer func() {
							if p := recover(); p != nil {
								fail("library-panic", fmt.Sprintf("N=%d (or the long-lived instance's current count %d): the library panicked: %v", n, pn, p), map[string]any{"N": n, "long_lived_N": pn, "panic": fmt.Sprint(p)})
							}
						}()
						// the long-lived instance jumps between validator counts (this n, then a random one)
						for _, nn := range []int{n, 1 + prng.Intn(maxN), 1 + prng.Intn(40)} {
							pn = nn
							pcur = prng.Uint32()
							persistent.Reset(0)
							rs++
							F := (nn - 1) / 3
							if persistent.N() != nn || persistent.F() != F || persistent.M() != nn-F {
								fail("quorum-arithmetic-after-validator-set-change", fmt.Sprintf("long-lived instance re-initialised with %d validators reports N/F/M = %d/%d/%d, expected %d/%d/%d", nn, persistent.N(), persistent.F(), persistent.M(), nn, F, nn-F), map[string]any{"N": nn})
							}
							for _, v := range []byte{0, 1, 2, 7, 255} {
								evals++
								if int(persistent.GetPrimaryIndex(v)) != refPrimary(persistent.BlockIndex, v, nn) {
									fail("primary-rotation-after-validator-set-change", fmt.Sprintf("N=%d h=%d v=%d: GetPrimaryIndex=%d expected %d", nn, persistent.BlockIndex, v, persistent.GetPrimaryIndex(v), refPrimary(persistent.BlockIndex, v, nn)), map[string]any{"N": nn})
								}
							}
						}
						cur := uint32(0)
						d := newInstance(n, &cur, pubs)
						viaReset := n <= 64 || (uint64(n)*2654435761+uint64(r.Seed))%100 == 0
						F := (n - 1) / 3
						M := n - F
						if d.N() != n || d.F() != F || d.M() != M {
							fail("quorum-arithmetic", fmt.Sprintf("N=%d: library N/F/M = %d/%d/%d, expected %d/%d/%d", n, d.N(), d.F(), d.M(), n, F, M), map[string]any{"N": n})
						}
						// two quorums share more than F validators; a quorum never needs a faulty one
						if 2*d.M()-d.N() <= d.F() || d.M() > d.N()-d.F() {
							fail("quorum-intersection", fmt.Sprintf("N=%d F=%d M=%d", n, d.F(), d.M()), map[string]any{"N": n})
						}
						for _, h := range heights {
							if viaReset {
								cur = h - 1 // Reset/Start put the node at CurrentHeight()+1 (wraps for h=0)
								d.Reset(0)
								rs++
								if d.BlockIndex != h {
									fail("reset-height", fmt.Sprintf("Reset with ledger height %d gives BlockIndex %d", cur, d.BlockIndex), map[string]any{"N": n, "h": h})
								}
								if int(d.PrimaryIndex) != refPrimary(h, 0, n) {
									fail("primary-index-after-reset", fmt.Sprintf("N=%d h=%d: PrimaryIndex=%d expected %d", n, h, d.PrimaryIndex, refPrimary(h, 0, n)), map[string]any{"N": n, "h": h})
								}
							} else {
								d.BlockIndex = h
							}
							seen := map[uint]bool{}
							for v := 0; v < 256; v++ {
								p := d.GetPrimaryIndex(byte(v))
								evals++
								if int(p) != refPrimary(h, byte(v), n) || int(p) >= n {
									fail("primary-rotation", fmt.Sprintf("N=%d h=%d v=%d: GetPrimaryIndex=%d expected %d", n, h, v, p, refPrimary(h, byte(v), n)), map[string]any{"N": n, "h": h, "v": v})
									break
								}
								if v < n {
									if seen[p] {
										fail("primary-repeats", fmt.Sprintf("N=%d h=%d: validator %d is primary twice within %d consecutive views", n, h, p, min(n, 256)), map[string]any{"N": n, "h": h})
										break
									}
									seen[p] = true
								}
							}
							// over N consecutive heights (view 0) every validator is primary exactly once
							if n <= 512 || (r.Thorough() && n%97 == 0) {
								cnt := make([]byte, n)
								for k := 0; k < n; k++ {
									d.BlockIndex = h + uint32(k) // wraps at 2^32 like the ledger height does
									cnt[d.GetPrimaryIndex(0)]++
									evals++
								}
								// a window crossing the 2^32 wrap is a permutation only if 2^32 is a multiple of N
								crosses := uint64(h)+uint64(n) > 1<<32
								if !crosses || (uint64(1)<<32)%uint64(n) == 0 {
									for i, c := range cnt {
										if c != 1 {
											fail("height-rotation", fmt.Sprintf("N=%d heights %d..+%d: validator %d is primary %d times", n, h, n-1, i, c), map[string]any{"N": n, "h": h})
											break
										}
									}
								}
								d.BlockIndex = h
							}
						}
						if n >= 2 {
							r.Distinct(fmt.Sprintf("N=%d", n))
						}
					}()
				}
			}
			mu.Lock()
			total += evals
			resets += rs
			mu.Unlock()
		}(w)
	}
	for lo := 1; lo <= maxN; lo += 128 {
		hi := lo + 128
		if hi > maxN+1 {
			hi = maxN + 1
		}
		jobs <- job{lo, hi}
	}
	close(jobs)
	wg.Wait()
	r.Eval(total)
	r.Count("reinitialisations-through-reset", resets)
	r.Count("validator-counts", maxN)
	r.Count("heights", int64(len(heights)))
	r.SetExhaustive(true)
	r.Set("enumerated", "N in 1..65535 x view in 0..255 x heights "+fmt.Sprint(heights))
	r.Sample(map[string]any{"N": 7, "height": heights[len(heights)-1], "primaries_views_0_to_7": func() []uint {
		cur := uint32(0)
		d := newInstance(7, &cur, pubs)
		d.BlockIndex = heights[len(heights)-1]
		var l []uint
		for v := 0; v < 8; v++ {
			l = append(l, d.GetPrimaryIndex(byte(v)))
		}
		return l
	}()})
	r.Finish()
}
