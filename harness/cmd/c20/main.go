// Command c20 is the runtime-checking engine for property C20:
//
//	"Each TLA+ specification shipped with the library keeps its own stated
//	invariants - type correctness, at most F faulty or dead nodes, and no two
//	nodes accepting blocks in different views - in every state reachable under
//	its next-state relation, for four validators and views bounded as in the
//	shipped model configurations, with and without the permitted faulty and
//	dead nodes."
//
// Technique: runtime monitoring of the executed specification. TLC's
// simulation mode generates random behaviours from the Init/Next of each of the
// five shipped specifications (as found in ev.Tree()/formal-models at run
// time) and evaluates the three named invariants on every generated state.
// A second family of short simulations runs a wrapper module with negated
// reachability predicates ("probes") that must be violated: they prove that
// the random behaviours of that (specification, configuration) pair really
// reach block acceptance, view changes, commits and bad/dead nodes.
//
// Verdicts: a TLC-reported invariant violation (or a specification that can no
// longer be parsed / lacks the named invariant) is a violation; a probe that is
// not refuted, a TLC crash or a watchdog expiry is inconclusive.
package main

import (
	"context"
	"crypto/sha256"
	"embed"
	"encoding/hex"
	"encoding/xml"
	"flag"
	"fmt"
	"hash/fnv"
	"math/rand"
	"os"
	"os/exec"
	"path/filepath"
	"regexp"
	"sort"
	"strconv"
	"strings"
	"sync"
	"time"

	"github.com/nspcc-dev/dbft/verifh/ev"
)

//go:embed probes/*.tla
var probeFS embed.FS

//go:embed known/*.tla
var knownFS embed.FS

// runKnown replays the recorded behaviours of KNOWN_FINDINGS.txt through the shipped next-state
// relation (directed scenario: deterministic KNOWN-FINDING line on the unchanged tree, silent
// once the specification no longer admits the behaviour).
func runKnown(r *ev.Run, runs []*specRun) {
	for _, sr := range runs {
		if sr.Def.Name != "dbft2.1_threeStagedCV" || sr.Missing {
			continue
		}
		mod, err := knownFS.ReadFile("known/dbftCV3_fault0.tla")
		if err != nil {
			r.Inconclusive("embedded known-behaviour module missing: " + err.Error())
			return
		}
		dir := filepath.Join(ev.Work(), "known-cv3")
		_ = os.MkdirAll(filepath.Join(dir, "tmp"), 0o755)
		_ = os.WriteFile(filepath.Join(dir, sr.Def.File), sr.Text, 0o644)
		_ = os.WriteFile(filepath.Join(dir, "MC_known.tla"), mod, 0o644)
		cfg := "CONSTANTS\n  RM = {0, 1, 2, 3}\n  RMFault = {0}\n  RMDead = {}\n  MaxView = 1\nINIT GInit\nNEXT GNext\nCONSTRAINT " + sr.Constr + "\nINVARIANTS\n"
		for _, i := range sr.Invs {
			cfg += "  " + i + "\n"
		}
		_ = os.WriteFile(filepath.Join(dir, "MC.cfg"), []byte(cfg), 0o644)
		args := append(tlcCommand()[1:], "-deadlock", "-noGenerateSpecTE", "-workers", "1", "-metadir", filepath.Join(dir, "meta"), "-config", "MC.cfg", "MC_known.tla")
		ctx, cancel := context.WithTimeout(context.Background(), 5*time.Minute)
		cmd := exec.CommandContext(ctx, tlcCommand()[0], args...)
		cmd.Dir = dir
		cmd.Env = append(os.Environ(), "JAVA_TOOL_OPTIONS=-Xmx512m -Djava.io.tmpdir="+filepath.Join(dir, "tmp"))
		out, _ := cmd.CombinedOutput()
		cancel()
		r.Count("directed_known_behaviours_replayed", 1)
		o := string(out)
		if i := strings.Index(o, "Invariant "); i >= 0 && strings.Contains(o, " is violated") {
			inv := strings.Fields(o[i+len("Invariant "):])[0]
			r.Violation("invariant:"+inv+":"+sr.Def.Name+":fault",
				fmt.Sprintf("formal-models/%s/%s with RMFault={0}, MaxView=1: invariant %s is violated by the recorded 23-state behaviour (one Byzantine primary), replayed through the shipped Next", sr.Def.Name, sr.Def.File, inv),
				map[string]any{"module": "harness/cmd/c20/known/dbftCV3_fault0.tla", "cfg": cfg, "tlc_output": strings.Split(clip(o, 20000), "\n")})
		}
	}
}

// specDef describes one shipped specification.
type specDef struct {
	Name     string // directory name under formal-models (unique)
	File     string // .tla file name
	Launch   string // Toolbox launch file name
	InitView int    // view of every node in Init
	// defaults (used when the launch file cannot be read)
	Constraint string
	TwoBlocks  string
	ExtraConst [][2]string // additional shipped constants
	InfoProbes []string    // informational (non-gating) probes besides the common ones
	Deadlock   bool        // has the report-only InvDeadlock detector
}

var specs = []specDef{
	{Name: "dbft", File: "dbft.tla", Launch: "dbft___AllGoodModel.launch", Constraint: "MaxViewConstraint",
		TwoBlocks: "InvTwoBlocksAccepted", InfoProbes: []string{"ProbeNoCvThenCommit"}},
	{Name: "dbft_antiMEV", File: "dbft.tla", Launch: "dbft___AllGoodModel.launch", Constraint: "MaxViewConstraint",
		TwoBlocks: "InvTwoBlocksAccepted", InfoProbes: []string{"ProbeNoCommitAck"}},
	{Name: "dbftMultipool", File: "dbftMultipool.tla", Launch: "dbftMultipool___AllGoodModel.launch", InitView: 1,
		Constraint: "ModelConstraint", TwoBlocks: "InvTwoBlocksAccepted",
		ExtraConst: [][2]string{{"MaxUndeliveredMessages", "6"}}, InfoProbes: []string{"ProbeNoCommitDelivered"}, Deadlock: true},
	{Name: "dbft2.1_threeStagedCV", File: "dbftCV3.tla", Launch: "dbftCV3___AllGoodModel.launch", Constraint: "MaxViewConstraint",
		TwoBlocks: "InvTwoBlocksAccepted", InfoProbes: []string{"ProbeNoCV2", "ProbeNoCV3"}},
	{Name: "dbft2.1_centralizedCV", File: "dbftCentralizedCV.tla", Launch: "dbftCentralizedCV___AllGoodModel.launch",
		Constraint: "MaxViewConstraint", TwoBlocks: "InvTwoBlocksAcceptedAdvanced",
		InfoProbes: []string{"ProbeNoDoCV1", "ProbeNoDoCV2", "ProbeNoMigratedAccept"}},
}

// shipped is what the launch file of a specification says.
type shipped struct {
	Found      bool
	Behaviour  string // "SPECIFICATION Spec" or "INIT Init\nNEXT Next"
	Constraint string
	Invariants []string
	Constants  map[string]string
}

type launchXML struct {
	Strings []struct {
		Key   string `xml:"key,attr"`
		Value string `xml:"value,attr"`
	} `xml:"stringAttribute"`
	Ints []struct {
		Key   string `xml:"key,attr"`
		Value string `xml:"value,attr"`
	} `xml:"intAttribute"`
	Lists []struct {
		Key     string `xml:"key,attr"`
		Entries []struct {
			Value string `xml:"value,attr"`
		} `xml:"listEntry"`
	} `xml:"listAttribute"`
}

var identRe = regexp.MustCompile(`^[A-Za-z_][A-Za-z0-9_]*$`)

func readLaunch(path string) shipped {
	s := shipped{Constants: map[string]string{}}
	b, err := os.ReadFile(path)
	if err != nil {
		return s
	}
	var l launchXML
	if xml.Unmarshal(b, &l) != nil {
		return s
	}
	s.Found = true
	str := map[string]string{}
	for _, a := range l.Strings {
		str[a.Key] = a.Value
	}
	for _, a := range l.Ints {
		str[a.Key] = a.Value
	}
	// modelBehaviorSpecType: 1 = temporal formula, 2 = Init/Next
	if f := strings.TrimSpace(str["modelBehaviorSpec"]); str["modelBehaviorSpecType"] == "1" && identRe.MatchString(f) {
		s.Behaviour = "SPECIFICATION " + f
	} else if i, n := strings.TrimSpace(str["modelBehaviorInit"]), strings.TrimSpace(str["modelBehaviorNext"]); identRe.MatchString(i) && identRe.MatchString(n) {
		s.Behaviour = "INIT " + i + "\nNEXT " + n
	}
	if c := strings.TrimSpace(str["modelParameterContraint"]); identRe.MatchString(c) {
		s.Constraint = c
	}
	for _, li := range l.Lists {
		switch li.Key {
		case "modelCorrectnessInvariants":
			for _, e := range li.Entries {
				if strings.HasPrefix(e.Value, "1") && identRe.MatchString(e.Value[1:]) {
					s.Invariants = append(s.Invariants, e.Value[1:])
				}
			}
		case "modelParameterConstants":
			for _, e := range li.Entries {
				p := strings.Split(e.Value, ";")
				if len(p) >= 3 {
					s.Constants[p[0]] = strings.TrimSpace(p[2])
				}
			}
		}
	}
	return s
}

// config is one assignment of the constants.
type config struct {
	Fault   string // "{}" or "{i}"
	Dead    string
	MaxView int
	Kind    string // allgood | fault | dead | both
	Shipped bool   // exactly the constants of the launch file
}

func (c config) id() string {
	return fmt.Sprintf("F%s_D%s_V%d", strings.Trim(c.Fault, "{}"), strings.Trim(c.Dead, "{}"), c.MaxView)
}
func (c config) String() string {
	return fmt.Sprintf("RMFault=%s RMDead=%s MaxView=%d", c.Fault, c.Dead, c.MaxView)
}

func set(i int) string { return fmt.Sprintf("{%d}", i) }

// configsFor returns the case list: a pure function of (tier, seed, spec index).
func configsFor(thorough bool, seed int64, si int) []config {
	if thorough {
		var out []config
		for mv := 1; mv <= 2; mv++ {
			out = append(out, config{"{}", "{}", mv, "allgood", mv == 1})
			for i := 0; i < 4; i++ {
				out = append(out, config{set(i), "{}", mv, "fault", false})
			}
			for i := 0; i < 4; i++ {
				out = append(out, config{"{}", set(i), mv, "dead", false})
			}
			for i := 0; i < 4; i++ {
				out = append(out, config{set(i), set(i), mv, "both", false})
			}
		}
		return out
	}
	rng := rand.New(rand.NewSource(seed*1000003 + int64(si)*7919 + 17))
	i, j, k := rng.Intn(4), rng.Intn(4), rng.Intn(4)
	a := 1 + rng.Intn(2)
	// the single-bad-node case keeps the shipped view bound (short, focused
	// behaviours: measured to be the most sensitive configuration); MaxView=2
	// with a bad node is covered by the "both" case.
	return []config{
		{"{}", "{}", 1, "allgood", true},
		{"{}", "{}", 2, "allgood", false}, // two view changes with all nodes good (longer behaviours)
		{set(i), "{}", 1, "fault", false},
		{"{}", set(j), a, "dead", false},
		{set(k), set(k), 2, "both", false},
	}
}

// kindCost orders the invariant-checking runs, most expensive first.
var kindCost = map[string]int{"both": 3, "fault": 2, "allgood": 1, "dead": 0}

// job is one TLC process.
type job struct {
	Spec    *specRun
	Cfg     config
	Kind    string // main | probe | deadlock
	Probe   string // probe operator name
	Gating  bool
	Seed    int64
	Workers int
	Num     int // traces per worker
	Depth   int
	Dir     string
	Module  string // module file given to TLC
	CfgText string

	// result
	RC       int
	Err      string // harness-level failure (start error, watchdog)
	Out      string
	Wall     float64
	States   int64
	Traces   int64
	Violated string // invariant name reported violated
	Trace    string
	TraceLen int
	Cmd      string
	Retries  int
}

type specRun struct {
	Def     specDef
	Idx     int
	Path    string
	Text    []byte
	SHA     string
	Ship    shipped
	Invs    []string
	Constr  string
	Behav   string
	Missing bool
	Notes   []string
}

type sem struct {
	mu   sync.Mutex
	c    *sync.Cond
	free int
}

func newSem(n int) *sem { s := &sem{free: n}; s.c = sync.NewCond(&s.mu); return s }
func (s *sem) acquire(n int) {
	s.mu.Lock()
	for s.free < n {
		s.c.Wait()
	}
	s.free -= n
	s.mu.Unlock()
}
func (s *sem) release(n int) { s.mu.Lock(); s.free += n; s.mu.Unlock(); s.c.Broadcast() }

var (
	reProgress  = regexp.MustCompile(`([\d,]+) states checked, ([\d,]+) traces generated`)
	reGenerated = regexp.MustCompile(`The number of states generated: ([\d,]+)`)
	reViolated  = regexp.MustCompile(`Invariant (\S+) is violated`)
	reState     = regexp.MustCompile(`(?m)^State (\d+): (.*)$`)
	reMissing   = regexp.MustCompile(`The (invariant|constraint|init predicate|next state action|specification)?\s*(\S+) specified in the configuration file\s+is not defined`)
)

func atoi(s string) int64 {
	v, _ := strconv.ParseInt(strings.ReplaceAll(s, ",", ""), 10, 64)
	return v
}

func tlcCommand() []string {
	if c := strings.Fields(os.Getenv("C20_TLC")); len(c) > 0 {
		return c
	}
	return []string{"tlc"}
}

func (j *job) run(watchdog time.Duration) {
	tmp := filepath.Join(j.Dir, "tmp")
	meta := filepath.Join(j.Dir, "meta")
	_ = os.MkdirAll(tmp, 0o755)
	args := append(tlcCommand()[1:],
		"-simulate", fmt.Sprintf("num=%d", j.Num),
		"-depth", strconv.Itoa(j.Depth),
		"-seed", strconv.FormatInt(j.Seed, 10),
		"-workers", strconv.Itoa(j.Workers),
		"-deadlock", "-noGenerateSpecTE",
		"-metadir", meta,
		"-config", "MC.cfg", j.Module)
	heap := "-Xmx2g"
	if j.Kind == "probe" {
		// short-lived process: C1 only, small heap - start-up dominates
		heap = "-Xmx512m -XX:TieredStopAtLevel=1"
	} else if j.Kind != "main" {
		heap = "-Xmx1g"
	}
	jopts := fmt.Sprintf("%s -XX:ParallelGCThreads=2 -XX:CICompilerCount=2 -Djava.io.tmpdir=%s", heap, tmp)
	j.Cmd = strings.ReplaceAll(fmt.Sprintf("cd <scratch dir holding %s%s and MC.cfg (=cfg)> && JAVA_TOOL_OPTIONS=%q %s %s", j.Spec.Def.File,
		map[bool]string{true: " + MC_probe.tla (harness/cmd/c20/probes)", false: ""}[j.Kind == "probe"], jopts, tlcCommand()[0], strings.Join(args, " ")), j.Dir, "<scratch>")
	ctx, cancel := context.WithTimeout(context.Background(), watchdog)
	defer cancel()
	cmd := exec.CommandContext(ctx, tlcCommand()[0], args...)
	cmd.Dir = j.Dir
	cmd.Env = append(os.Environ(), "JAVA_TOOL_OPTIONS="+jopts)
	cmd.WaitDelay = 10 * time.Second
	t0 := time.Now()
	out, err := cmd.CombinedOutput()
	j.Wall = time.Since(t0).Seconds()
	j.Out = string(out)
	j.RC = 0
	if err != nil {
		if ctx.Err() != nil {
			j.Err = fmt.Sprintf("watchdog: TLC still running after %s", watchdog)
			j.RC = -1
		} else if ee, ok := err.(*exec.ExitError); ok {
			j.RC = ee.ExitCode()
			if j.RC < 0 {
				j.Err = "TLC killed by signal: " + ee.Error()
			}
		} else {
			j.Err = "cannot run TLC: " + err.Error()
			j.RC = -1
		}
	}
	if m := reProgress.FindAllStringSubmatch(j.Out, -1); len(m) > 0 {
		l := m[len(m)-1]
		j.States, j.Traces = atoi(l[1]), atoi(l[2])
	}
	if m := reGenerated.FindStringSubmatch(j.Out); m != nil && atoi(m[1]) > j.States {
		j.States = atoi(m[1])
	}
	if m := reViolated.FindStringSubmatch(j.Out); m != nil {
		j.Violated = m[1]
		if i := strings.Index(j.Out, "The behavior up to this point is:"); i >= 0 {
			t := j.Out[i:]
			for _, end := range []string{"\nThe number of states generated", "\nProgress", "\nFinished in", "\nSimulation using seed"} {
				if k := strings.Index(t, end); k >= 0 {
					t = t[:k]
				}
			}
			j.Trace = strings.TrimSpace(t)
			j.TraceLen = len(reState.FindAllString(j.Trace, -1))
		}
	}
	// keep scratch small
	_ = os.RemoveAll(meta)
	_ = os.RemoveAll(tmp)
}

// errorLines extracts TLC's own diagnostics (without the module-loading chatter).
func errorLines(out string, max int) string {
	var keep []string
	for _, l := range strings.Split(out, "\n") {
		t := strings.TrimSpace(l)
		if t == "" || strings.HasPrefix(t, "Parsing file") || strings.HasPrefix(t, "Semantic processing") ||
			strings.HasPrefix(t, "Linting of") || strings.HasPrefix(t, "Picked up JAVA_TOOL_OPTIONS") ||
			strings.HasPrefix(t, "TLC2 Version") || strings.HasPrefix(t, "Running Random Simulation") {
			continue
		}
		keep = append(keep, l)
		if len(keep) >= max {
			keep = append(keep, "...")
			break
		}
	}
	return strings.Join(keep, "\n")
}

func summaryLines(out string) []string {
	var keep []string
	for _, l := range strings.Split(out, "\n") {
		t := strings.TrimSpace(l)
		if strings.HasPrefix(t, "TLC2 Version") || strings.HasPrefix(t, "Running Random Simulation") ||
			strings.HasPrefix(t, "Finished computing initial states") || strings.HasPrefix(t, "Progress") ||
			strings.HasPrefix(t, "The number of states generated") || strings.HasPrefix(t, "Simulation using seed") ||
			strings.HasPrefix(t, "Finished in") {
			keep = append(keep, t)
		}
	}
	return keep
}

func clip(s string, n int) string {
	if len(s) <= n {
		return s
	}
	return s[:n] + fmt.Sprintf("\n... [%d bytes cut]", len(s)-n)
}

// shortTrace keeps the action label of every state and the full last state.
func shortTrace(tr string) []string {
	idx := reState.FindAllStringIndex(tr, -1)
	var out []string
	for n, p := range idx {
		if n == len(idx)-1 {
			out = append(out, strings.Split(strings.TrimSpace(tr[p[0]:]), "\n")...)
		} else {
			out = append(out, tr[p[0]:p[1]])
		}
	}
	return out
}

func seedFor(base int64, parts ...string) int64 {
	h := fnv.New64a()
	fmt.Fprintf(h, "%d", base)
	for _, p := range parts {
		h.Write([]byte{0})
		h.Write([]byte(p))
	}
	return int64(h.Sum64()&0x3fffffff) + 1
}

func cfgText(sr *specRun, c config, invs []string) string {
	var b strings.Builder
	b.WriteString("\\* generated by harness C20 for formal-models/" + sr.Def.Name + "/" + sr.Def.File + "\n")
	b.WriteString("CONSTANTS\n  RM = {0, 1, 2, 3}\n")
	fmt.Fprintf(&b, "  RMFault = %s\n  RMDead = %s\n  MaxView = %d\n", c.Fault, c.Dead, c.MaxView)
	for _, kv := range sr.Def.ExtraConst {
		fmt.Fprintf(&b, "  %s = %s\n", kv[0], kv[1])
	}
	b.WriteString(sr.Behav + "\n")
	b.WriteString("CONSTRAINT " + sr.Constr + "\n")
	b.WriteString("INVARIANTS\n")
	for _, i := range invs {
		b.WriteString("  " + i + "\n")
	}
	return b.String()
}

func main() {
	prop := flag.String("prop", "C20", "property id")
	flag.Parse()
	r := ev.New(*prop)
	thorough := r.Thorough()

	r.SetRule("case = one TLC simulation run (random behaviours generated from the shipped Init/Next, depth<=D, K traces) of one shipped .tla " +
		"file under one constant assignment: RM={0,1,2,3}, MaxView in {1,2}, (RMFault,RMDead) in {({},{}), ({i},{}), ({},{j}), ({k},{k})} as allowed by " +
		"the ASSUME clause (|RMFault u RMDead| <= F = 1), shipped CONSTRAINT, INVARIANTS TypeOK + InvTwoBlocksAccepted[Advanced] + InvFaultNodesCount evaluated " +
		"by TLC on every generated state. quick: 4 assignments per spec ({},{},1 as shipped; {i},{},1; {},{j},v; {k},{k},2) with i,j,k,v drawn from VERIF_SEED; thorough: all 26 assignments per spec. " +
		"evaluations = behaviours (traces) generated by the invariant-checking runs. A (spec, assignment) pair is counted non-trivial only when separate probe " +
		"simulations of the same spec+assignment (wrapper module with negated reachability predicates) PROVED by counter-example that block acceptance, a Commit, " +
		"an honest node's view change and (where permitted) a bad / dead node are reached by the random behaviours.")
	r.Assume("TLC (tla2tools, simulation mode) evaluates the named invariants faithfully on every state it generates; states that violate the shipped CONSTRAINT are still invariant-checked by TLC but not extended")
	r.Assume("exploration only: random behaviours of bounded depth, not the full reachable state space")
	r.Assume("the fault sets exercised are exactly those admitted by each spec's ASSUME (one node faulty and/or dead, same node when both)")

	tree := ev.Tree()
	fm := filepath.Join(tree, "formal-models")
	if st, err := os.Stat(fm); err != nil || !st.IsDir() {
		r.Inconclusive("no formal-models directory in " + tree)
		r.Finish()
	}
	if _, err := exec.LookPath(tlcCommand()[0]); err != nil {
		r.Inconclusive("TLC not available: " + err.Error())
		r.Finish()
	}
	work := filepath.Join(ev.Work(), "c20")
	_ = os.RemoveAll(work)
	defer os.RemoveAll(work)

	// ---- budgets: pure functions of the tier --------------------------------
	mainWorkers := 4
	// traces per worker and configuration kind. A behaviour with a bad node
	// generates ~6x the states of an all-good one; violations of the fork
	// invariant practically always need the bad node, so those configurations
	// get the larger share of the state budget.
	kindNum := map[string]int{
		"allgood": r.Pick(4800, 10000),
		"fault":   r.Pick(3600, 9000),
		"dead":    r.Pick(3600, 4000),
		"both":    r.Pick(1200, 2500),
	}
	probeNum := r.Pick(4000, 20000) // single worker
	dlNum := r.Pick(2000, 5000)     // per worker, 2 workers (report-only InvDeadlock sample)
	focusNum := r.Pick(6000, 60000) // per worker, 4 workers (focused all-good MaxView=2 runs)
	depth := 100
	slots := 16
	if v, err := strconv.Atoi(os.Getenv("C20_SLOTS")); err == nil && v >= 4 {
		slots = v
	}
	watchdog := time.Duration(r.Pick(15, 60)) * time.Minute

	// ---- prepare specs and jobs ---------------------------------------------
	var runs []*specRun
	var jobs []*job
	only := os.Getenv("C20_ONLY") // development/replay aid: restrict to one spec directory (never gives "held")
	if only != "" {
		r.Inconclusive("restricted run (C20_ONLY=" + only + "): not all five specifications were executed")
	}
	for si := range specs {
		if only != "" && specs[si].Name != only {
			continue
		}
		sr := &specRun{Def: specs[si], Idx: si}
		runs = append(runs, sr)
		dir := filepath.Join(fm, sr.Def.Name)
		sr.Path = filepath.Join(dir, sr.Def.File)
		b, err := os.ReadFile(sr.Path)
		if err != nil {
			sr.Missing = true
			continue
		}
		sr.Text = b
		h := sha256.Sum256(b)
		sr.SHA = hex.EncodeToString(h[:])
		sr.Ship = readLaunch(filepath.Join(dir, sr.Def.Launch))
		sr.Constr, sr.Behav = sr.Def.Constraint, "INIT Init\nNEXT Next"
		two := sr.Def.TwoBlocks
		if sr.Ship.Found {
			if sr.Ship.Constraint != "" {
				sr.Constr = sr.Ship.Constraint
			}
			if sr.Ship.Behaviour != "" {
				sr.Behav = sr.Ship.Behaviour
			}
			for _, i := range sr.Ship.Invariants {
				if strings.HasPrefix(i, "InvTwoBlocksAccepted") {
					two = i
				}
			}
			if got := strings.ReplaceAll(sr.Ship.Constants["RM"], " ", ""); got != "{0,1,2,3}" {
				sr.Notes = append(sr.Notes, "launch file RM="+sr.Ship.Constants["RM"]+" (property fixes RM={0,1,2,3})")
			}
			for _, kv := range sr.Def.ExtraConst {
				if got := sr.Ship.Constants[kv[0]]; got != kv[1] {
					sr.Notes = append(sr.Notes, fmt.Sprintf("launch file %s=%q (property fixes %s)", kv[0], got, kv[1]))
				}
			}
		} else {
			sr.Notes = append(sr.Notes, "launch file not readable: built-in shipped constants used")
		}
		sr.Invs = []string{"TypeOK", two, "InvFaultNodesCount"}

		for _, c := range configsFor(thorough, r.Seed, si) {
			base := filepath.Join(work, sr.Def.Name, c.id())
			mk := func(kind, probe string, gating bool, workers, num int, invs []string) *job {
				j := &job{Spec: sr, Cfg: c, Kind: kind, Probe: probe, Gating: gating, Workers: workers, Num: num, Depth: depth,
					Seed: seedFor(r.Seed, sr.Def.Name, c.id(), kind, probe)}
				j.Dir = filepath.Join(base, kind+probe)
				j.Module = sr.Def.File
				j.CfgText = cfgText(sr, c, invs)
				jobs = append(jobs, j)
				return j
			}
			mk("main", "", false, mainWorkers, kindNum[c.Kind], sr.Invs)
			gating := []string{"ProbeNoAccept", "ProbeNoCommit", "ProbeNoViewChange"}
			if c.Fault != "{}" {
				gating = append(gating, "ProbeNoBad")
			}
			if c.Dead != "{}" {
				gating = append(gating, "ProbeNoDead")
			}
			info := []string{"ProbeNoMaxView"}
			if c.MaxView > sr.Def.InitView {
				info = append(info, "ProbeNoAcceptLater")
			}
			info = append(info, sr.Def.InfoProbes...)
			for _, p := range gating {
				mk("probe", p, true, 1, probeNum, []string{p}).Module = "MC_probe.tla"
			}
			for _, p := range info {
				mk("probe", p, false, 1, probeNum, []string{p}).Module = "MC_probe.tla"
			}
			if sr.Def.Deadlock {
				mk("deadlock", "InvDeadlock", false, 2, dlNum, []string{"InvDeadlock"})
			}
			if c.Kind == "allgood" && c.MaxView == 2 {
				// focused simulation: same invariants, behaviours pruned to those that decide only
				// after at least one view change (deep behaviours are otherwise too rare)
				fc := fmt.Sprintf("FocusLateViews%d", sr.Def.InitView+1)
				j := mk("focus", fc, false, 4, focusNum, sr.Invs)
				j.Module = "MC_probe.tla"
				j.CfgText = strings.Replace(j.CfgText, "CONSTRAINT "+sr.Constr+"\n", "CONSTRAINTS\n  "+sr.Constr+"\n  "+fc+"\n", 1)
			}
		}
	}

	// ---- execute ---------------------------------------------------------------
	s := newSem(slots)
	var wg sync.WaitGroup
	// long jobs first
	order := make([]*job, len(jobs))
	copy(order, jobs)
	sort.SliceStable(order, func(a, b int) bool {
		if order[a].Workers != order[b].Workers {
			return order[a].Workers > order[b].Workers
		}
		if order[a].Kind == "main" && order[b].Kind == "main" {
			// most expensive first: configurations with a bad node, later specs (centralized CV) first
			ca, cb := kindCost[order[a].Cfg.Kind], kindCost[order[b].Cfg.Kind]
			if ca != cb {
				return ca > cb
			}
			return order[a].Spec.Idx > order[b].Spec.Idx
		}
		return false
	})
	for _, j := range order {
		j := j
		if err := os.MkdirAll(j.Dir, 0o755); err != nil {
			j.Err, j.RC = "scratch: "+err.Error(), -1
			continue
		}
		_ = os.WriteFile(filepath.Join(j.Dir, j.Spec.Def.File), j.Spec.Text, 0o644)
		_ = os.WriteFile(filepath.Join(j.Dir, "MC.cfg"), []byte(j.CfgText), 0o644)
		if j.Kind == "probe" || j.Kind == "focus" {
			pb, err := probeFS.ReadFile("probes/" + probeFile(j.Spec.Def))
			if err != nil {
				j.Err, j.RC = "embedded probe module missing: "+err.Error(), -1
				continue
			}
			_ = os.WriteFile(filepath.Join(j.Dir, "MC_probe.tla"), pb, 0o644)
		}
		wg.Add(1)
		s.acquire(j.Workers)
		go func() {
			defer wg.Done()
			defer s.release(j.Workers)
			// a TLC process killed from outside (shared machine: SIGTERM/SIGKILL ->
			// exit 143/137) says nothing about the spec: run it again, same seed
			for attempt := 0; ; attempt++ {
				j.run(watchdog)
				killed := j.RC == 143 || j.RC == 137 || j.RC == 130 || j.RC == 129 || strings.HasPrefix(j.Err, "TLC killed by signal")
				if !killed || attempt >= 2 {
					break
				}
				j.Retries++
				j.Err = ""
			}
			if os.Getenv("C20_VERBOSE") != "" {
				fmt.Fprintf(os.Stderr, "c20: %-22s %-12s %-8s %-22s rc=%d %.1fs states=%d traces=%d %s\n",
					j.Spec.Def.Name, j.Cfg.id(), j.Kind, j.Probe, j.RC, j.Wall, j.States, j.Traces, j.Violated)
			}
		}()
	}
	wg.Wait()

	// ---- evaluate (deterministic order) ----------------------------------------
	evaluate(r, runs, jobs, thorough)
	runKnown(r, runs)
	_ = os.RemoveAll(work)
	r.Finish()
}

func probeFile(d specDef) string {
	switch d.Name {
	case "dbft":
		return "dbft.tla"
	case "dbft_antiMEV":
		return "dbft_antiMEV.tla"
	case "dbftMultipool":
		return "dbftMultipool.tla"
	case "dbft2.1_threeStagedCV":
		return "dbftCV3.tla"
	default:
		return "dbftCentralizedCV.tla"
	}
}

// classification of a finished TLC process
const (
	clOK       = "ok"       // ran to completion, no invariant violated
	clViolated = "violated" // TLC reported an invariant violated
	clBroken   = "broken"   // spec does not parse / lacks a named operator / cannot be evaluated
	clAssume   = "assume"   // ASSUME rejected the constants
	clHarness  = "harness"  // crash, watchdog, cannot start
)

func classify(j *job) (class, detail string) {
	switch {
	case j.Err != "":
		return clHarness, j.Err
	case j.Violated != "":
		return clViolated, j.Violated
	case j.RC == 0:
		if j.Traces == 0 {
			return clHarness, "TLC exited 0 without generating a trace"
		}
		return clOK, ""
	case j.RC == 10 || strings.Contains(j.Out, "Assumption") && strings.Contains(j.Out, "is false"):
		return clAssume, firstLine(j.Out, "Assumption")
	case j.RC == 150:
		return clBroken, "parse: " + firstLine(j.Out, "Unknown operator", "Encountered", "Parse Error", "Was expecting", "Error:")
	case j.RC == 151 || reMissing.MatchString(j.Out):
		if m := reMissing.FindStringSubmatch(j.Out); m != nil {
			kind := strings.ReplaceAll(m[1], " ", "-")
			if kind == "" {
				kind = "operator"
			}
			return clBroken, "missing-" + kind + ": " + m[2]
		}
		return clBroken, "config: " + firstLine(j.Out, "Error:")
	case strings.Contains(j.Out, "EvalException") || strings.Contains(j.Out, "Evaluating invariant") ||
		strings.Contains(j.Out, "error in the spec or model") || j.RC == 75 || j.RC == 76 || j.RC == 14:
		return clBroken, "eval: " + firstLine(j.Out, ": The ", "Evaluating invariant", "Attempted to", "Error:")
	default:
		return clHarness, fmt.Sprintf("TLC exit code %d: %s", j.RC, firstLine(j.Out, "Error:", "Exception", "error"))
	}
}

func firstLine(out string, keys ...string) string {
	lines := strings.Split(out, "\n")
	for _, k := range keys {
		for i, l := range lines {
			if strings.Contains(l, k) {
				t := strings.TrimSpace(l)
				if i+1 < len(lines) && len(t) < 60 {
					t += " " + strings.TrimSpace(lines[i+1])
				}
				return clip(t, 300)
			}
		}
	}
	return ""
}

func evaluate(r *ev.Run, runs []*specRun, jobs []*job, thorough bool) {
	type cfgKey struct {
		spec string
		cfg  string
	}
	group := map[cfgKey][]*job{}
	var keys []cfgKey
	for _, j := range jobs {
		k := cfgKey{j.Spec.Def.Name, j.Cfg.id()}
		if _, ok := group[k]; !ok {
			keys = append(keys, k)
		}
		group[k] = append(group[k], j)
	}

	var runRows []map[string]any
	var dlRows []map[string]any
	sigSeen := map[string]bool{}
	specRan := map[string]bool{}
	var totalStates, totalTraces, probeStates, probeTraces int64
	var sampleProbe *job

	report := func(sig, what string, w map[string]any) {
		if sigSeen[sig] {
			r.Count("violations_same_signature_not_listed", 1)
			return
		}
		sigSeen[sig] = true
		r.Violation(sig, what, w)
	}
	witness := func(j *job, extra map[string]any) map[string]any {
		w := map[string]any{
			"seed": r.Seed, "tier": r.Tier, "spec": "formal-models/" + j.Spec.Def.Name + "/" + j.Spec.Def.File,
			"spec_sha256": j.Spec.SHA, "constants": j.Cfg.String(), "cfg": j.CfgText, "tlc_seed": j.Seed,
			"workers": j.Workers, "num_per_worker": j.Num, "depth": j.Depth, "tlc_exit_code": j.RC, "replay_command": j.Cmd,
			"tree": ev.Tree(),
		}
		for k, v := range extra {
			w[k] = v
		}
		return w
	}

	for _, sr := range runs {
		if sr.Missing {
			report("spec-broken:missing-file:"+sr.Def.Name, "specification formal-models/"+sr.Def.Name+"/"+sr.Def.File+" is not in the tree: it cannot keep its stated invariants",
				map[string]any{"seed": r.Seed, "path": sr.Path, "tree": ev.Tree()})
		}
	}

	for _, j := range jobs {
		if j.Retries > 0 {
			r.Count("tlc_processes_killed_externally_and_rerun", int64(j.Retries))
		}
	}
	for _, k := range keys {
		js := group[k]
		var m *job
		for _, j := range js {
			if j.Kind == "main" {
				m = j
			}
		}
		sr := m.Spec
		row := map[string]any{"spec": sr.Def.Name + "/" + sr.Def.File, "constants": m.Cfg.String(), "kind": m.Cfg.Kind, "shipped_constants": m.Cfg.Shipped,
			"tlc_seed": m.Seed, "exit_code": m.RC, "traces": m.Traces, "states": m.States, "wall_s": round1(m.Wall), "invariants": strings.Join(sr.Invs, ","),
			"constraint": sr.Constr}
		cl, det := classify(m)
		row["result"] = cl
		if det != "" {
			row["detail"] = det
		}
		usable := false
		switch cl {
		case clOK:
			usable = true
			specRan[sr.Def.Name] = true
			totalStates += m.States
			totalTraces += m.Traces
			r.Eval(m.Traces)
			r.Count("configurations_run", 1)
			r.Count("configurations_"+m.Cfg.Kind, 1)
			if r.WantSample() && (m.Cfg.Shipped && sr.Idx == pick(r.Seed, 0) || m.Cfg.Kind == "fault" && sr.Idx == pick(r.Seed, 2)) {
				r.Sample(map[string]any{"what": "invariant-checking simulation run", "spec": sr.Def.Name + "/" + sr.Def.File, "spec_sha256": sr.SHA,
					"cfg": strings.Split(strings.TrimSpace(m.CfgText), "\n"), "tlc_summary": summaryLines(m.Out), "command": m.Cmd})
			}
		case clViolated:
			specRan[sr.Def.Name] = true
			totalStates += m.States
			totalTraces += m.Traces
			r.Eval(m.Traces)
			inv := m.Violated
			report("invariant:"+inv+":"+sr.Def.Name+":"+m.Cfg.Kind,
				fmt.Sprintf("TLC simulation of formal-models/%s/%s with %s: invariant %s is violated in a generated behaviour of %d states (after %d traces / %d states)",
					sr.Def.Name, sr.Def.File, m.Cfg, inv, m.TraceLen, m.Traces, m.States),
				witness(m, map[string]any{"invariant": inv, "trace_states": m.TraceLen, "trace": strings.Split(clip(m.Trace, 60000), "\n")}))
		case clBroken:
			kind := strings.SplitN(det, ":", 2)[0]
			report("spec-broken:"+kind+":"+sr.Def.Name,
				fmt.Sprintf("formal-models/%s/%s cannot be executed with its stated invariants (%s) under %s: %s", sr.Def.Name, sr.Def.File, strings.Join(sr.Invs, ", "), m.Cfg, det),
				witness(m, map[string]any{"tlc_output": strings.Split(errorLines(m.Out, 60), "\n")}))
		case clAssume:
			if m.Cfg.Shipped {
				report("spec-broken:assume:"+sr.Def.Name,
					fmt.Sprintf("formal-models/%s/%s rejects its own shipped constants (%s): %s", sr.Def.Name, sr.Def.File, m.Cfg, det),
					witness(m, map[string]any{"tlc_output": strings.Split(errorLines(m.Out, 40), "\n")}))
			} else {
				r.Inconclusive(fmt.Sprintf("%s: ASSUME rejects %s, which the property expects to be a permitted fault set (%s)", sr.Def.Name, m.Cfg, det))
			}
		default:
			r.Inconclusive(fmt.Sprintf("%s %s: %s", sr.Def.Name, m.Cfg, det))
			row["tlc_output"] = strings.Split(errorLines(m.Out, 15), "\n")
		}

		// probes
		reached := map[string]any{}
		var got []string
		complete := usable
		for _, j := range js {
			switch j.Kind {
			case "focus":
				fc, fd := classify(j)
				switch fc {
				case clOK:
					totalStates += j.States
					totalTraces += j.Traces
					r.Eval(j.Traces)
					r.Count("focused_runs", 1)
					r.Count("focused_states", j.States)
				case clViolated:
					r.Eval(j.Traces)
					report("invariant:"+j.Violated+":"+sr.Def.Name+":"+j.Cfg.Kind,
						fmt.Sprintf("TLC simulation of formal-models/%s/%s with %s and focus constraint %s: invariant %s is violated in a generated behaviour of %d states (after %d traces / %d states)",
							sr.Def.Name, sr.Def.File, j.Cfg, j.Probe, j.Violated, j.TraceLen, j.Traces, j.States),
						witness(j, map[string]any{"invariant": j.Violated, "focus_constraint": j.Probe, "trace_states": j.TraceLen, "trace": strings.Split(clip(j.Trace, 60000), "\n")}))
				default:
					r.Count("focused_runs_unusable", 1)
					row["focus_run"] = fd
				}
			case "probe":
				if !usable {
					continue
				}
				pc, pd := classify(j)
				probeStates += j.States
				probeTraces += j.Traces
				goal := strings.TrimPrefix(j.Probe, "ProbeNo")
				switch {
				case pc == clViolated && j.Violated == j.Probe:
					reached[goal] = map[string]any{"reached": true, "after_traces": j.Traces, "behaviour_states": j.TraceLen, "gating": j.Gating}
					got = append(got, goal)
					r.Count("probe_goals_reached", 1)
					if j.Gating && j.Probe == "ProbeNoAccept" && j.Cfg.Kind == "fault" && (sampleProbe == nil) {
						sampleProbe = j
					}
				case pc == clOK:
					reached[goal] = map[string]any{"reached": false, "traces": j.Traces, "states": j.States, "gating": j.Gating}
					r.Count("probe_goals_not_reached", 1)
					if j.Gating {
						complete = false
						r.Inconclusive(fmt.Sprintf("%s %s: probe %s not refuted in %d traces - the simulation did not demonstrably reach that kind of state", sr.Def.Name, j.Cfg, j.Probe, j.Traces))
					}
				default:
					reached[goal] = map[string]any{"reached": false, "error": pc + ": " + pd, "gating": j.Gating}
					if j.Gating {
						complete = false
						r.Inconclusive(fmt.Sprintf("%s %s: probe %s could not be evaluated (%s: %s)", sr.Def.Name, j.Cfg, j.Probe, pc, pd))
					} else {
						r.Count("info_probe_errors", 1)
					}
				}
			case "deadlock":
				dc, dd := classify(j)
				d := map[string]any{"spec": sr.Def.Name, "constants": j.Cfg.String(), "traces": j.Traces, "states": j.States, "tlc_seed": j.Seed}
				switch {
				case dc == clViolated && j.Violated == "InvDeadlock":
					d["InvDeadlock"] = "violated (documented liveness lock reached; report-only, not part of C20)"
					d["behaviour_states"] = j.TraceLen
					d["behaviour"] = shortTrace(j.Trace)
					r.Count("invdeadlock_report_only_hits", 1)
				case dc == clOK:
					d["InvDeadlock"] = "not violated in this sample"
				default:
					d["InvDeadlock"] = "not evaluated: " + dc + " " + dd
				}
				dlRows = append(dlRows, d)
			}
		}
		if usable {
			sort.Strings(got)
			row["probes"] = reached
			row["nontrivial"] = complete
			if complete {
				r.Count("configurations_probe_complete", 1)
				r.Distinct(fmt.Sprintf("%s|%s|reached=%s", sr.Def.Name, m.Cfg, strings.Join(got, ",")))
			}
		}
		if len(sr.Notes) > 0 {
			row["notes"] = sr.Notes
		}
		runRows = append(runRows, row)
	}

	if sampleProbe != nil {
		j := sampleProbe
		r.Sample(map[string]any{"what": "probe counter-example = an actual generated behaviour that reaches block acceptance (action labels; last state in full)",
			"spec": j.Spec.Def.Name + "/" + j.Spec.Def.File, "constants": j.Cfg.String(), "probe": j.Probe, "tlc_seed": j.Seed, "behaviour": shortTrace(j.Trace)})
	}

	for n := range specRan {
		_ = n
		r.Count("specs_run", 1)
	}
	r.Count("states_checked", totalStates)
	r.Count("behaviours_generated", totalTraces)
	r.Count("probe_states_checked", probeStates)
	r.Count("probe_behaviours_generated", probeTraces)
	r.Set("states", totalStates)
	r.Set("behaviours", totalTraces)
	r.Set("runs", runRows)
	r.Set("invdeadlock_report_only", dlRows)
	r.Set("exploration_claim", fmt.Sprintf("invariants held on %d behaviours / %d states", totalTraces, totalStates))

	if r.Violations() == 0 && len(sigSeen) == 0 {
		r.Floor("specs_run", int64(len(specs)))
		nCfg := int64(len(keys))
		r.Floor("configurations_run", nCfg)
		r.Floor("configurations_probe_complete", nCfg)
		r.Floor("configurations_fault", int64(len(specs)))
		r.Floor("configurations_dead", int64(len(specs)))
		r.Floor("configurations_both", int64(len(specs)))
		if thorough {
			r.Floor("states_checked", 100_000_000)
		} else {
			r.Floor("states_checked", 5_000_000)
		}
	}
}

// pick selects a spec index from the seed (which runs are written out as samples).
func pick(seed int64, off int64) int {
	n := int64(len(specs))
	return int(((seed+off)%n + n) % n)
}

func round1(f float64) float64 { return float64(int(f*10+0.5)) / 10 }
