---------------------------- MODULE MC_probe ----------------------------
\* Coverage probes for formal-models/dbft2.1_threeStagedCV/dbftCV3.tla (harness C20).
\* Every Probe* operator is the NEGATION of a reachability goal (see dbft.tla probes).
EXTENDS dbftCV3

Honest(r) == rmState[r].type \notin {"bad", "dead"}

\* gating probes
ProbeNoAccept     == \A r \in RM : rmState[r].type /= "blockAccepted"
ProbeNoCommit     == \A m \in msgs : m.type /= "Commit"
ProbeNoViewChange == \A r \in RM : Honest(r) => rmState[r].view = 0
ProbeNoBad        == \A r \in RM : rmState[r].type /= "bad"
ProbeNoDead       == \A r \in RM : rmState[r].type /= "dead"

\* informational probes
ProbeNoAcceptLater == \A r \in RM : ~(rmState[r].type = "blockAccepted" /\ rmState[r].view > 0)
ProbeNoMaxView     == \A r \in RM : Honest(r) => rmState[r].view < MaxView
ProbeNoCV2         == \A r \in RM : rmState[r].type /= "cv2"
ProbeNoCV3         == \A r \in RM : rmState[r].type /= "cv3"

\* focus constraints (harness C20): prune behaviours in which somebody commits before view 1 / view 2,
\* so that random simulation spends its budget on decisions taken after one or two view changes
FocusLateViews1 == \A r \in RM : rmState[r].type \in {"commitSent", "commitAckSent", "blockAccepted"} => rmState[r].view >= 1
FocusLateViews2 == \A r \in RM : rmState[r].type \in {"commitSent", "commitAckSent", "blockAccepted"} => rmState[r].view >= 2
=============================================================================
