---------------------------- MODULE MC_probe ----------------------------
\* Coverage probes for formal-models/dbftMultipool/dbftMultipool.tla (harness C20).
\* Every Probe* operator is the NEGATION of a reachability goal (see dbft.tla probes).
\* NB: this model starts every node in view 1.
EXTENDS dbftMultipool

Honest(r) == rmState[r].type \notin {"bad", "dead"}

\* gating probes
ProbeNoAccept     == \A r \in RM : rmState[r].type /= "blockAccepted"
ProbeNoCommit     == \A m \in msgs : m.type /= "Commit"
ProbeNoViewChange == \A r \in RM : Honest(r) => rmState[r].view = 1
ProbeNoBad        == \A r \in RM : rmState[r].type /= "bad"
ProbeNoDead       == \A r \in RM : rmState[r].type /= "dead"

\* informational probes
ProbeNoAcceptLater == \A r \in RM : ~(rmState[r].type = "blockAccepted" /\ rmState[r].view > 1)
ProbeNoMaxView     == \A r \in RM : Honest(r) => rmState[r].view < MaxView
ProbeNoCommitDelivered == \A r \in RM : \A m \in rmState[r].pool : ~(m.type = "Commit" /\ m.rm /= r)
=============================================================================
