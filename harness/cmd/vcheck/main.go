// Command vcheck runs the vnet-based property checks.
package main

import (
	"flag"
	"fmt"
	"os"

	"github.com/nspcc-dev/dbft/verifh/checks"
	"github.com/nspcc-dev/dbft/verifh/ev"
)

func main() {
	prop := flag.String("prop", "", "property id")
	only := flag.Int("only", -1, "execute only run index i (replay)")
	flag.Parse()
	checks.Only = *only
	f, ok := checks.Registry[*prop]
	if !ok {
		fmt.Fprintln(os.Stderr, "unknown property", *prop)
		os.Exit(2)
	}
	r := ev.New(*prop)
	if *only >= 0 {
		r.DisableFloors() // a single replayed run cannot meet coverage floors
	}
	f(r)
	if *only >= 0 {
		r.Set("replay_only", *only)
	}
	r.Finish()
}
