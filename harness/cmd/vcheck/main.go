// Command vcheck runs the vnet-based property checks.
package main

import (
	"flag"
	"fmt"
	"os"
	"strings"

	"github.com/nspcc-dev/dbft/verifh/checks"
	"github.com/nspcc-dev/dbft/verifh/ev"
)

func main() {
	prop := flag.String("prop", "", "property id")
	only := flag.Int("only", -1, "execute only run index i (replay)")
	fw := flag.String("fuzzworker", "", "internal: seed:lo:hi:progressfile")
	fone := flag.Int("fuzzone", -1, "replay one fuzz case of C11")
	flag.Parse()
	if *fw != "" {
		var seed int64
		var lo, hi int
		parts := strings.SplitN(*fw, ":", 4)
		if len(parts) != 4 {
			os.Exit(2)
		}
		fmt.Sscan(parts[0], &seed)
		fmt.Sscan(parts[1], &lo)
		fmt.Sscan(parts[2], &hi)
		checks.FuzzWorker(seed, lo, hi, parts[3])
		return
	}
	if *fone >= 0 {
		checks.FuzzOne(ev.New(*prop).Seed, *fone)
		return
	}
	checks.Only = *only
	f, ok := checks.Registry[*prop]
	if !ok {
		fmt.Fprintln(os.Stderr, "unknown property", *prop)
		os.Exit(2)
	}
	r := ev.New(*prop)
	if *only >= 0 {
		r.DisableFloors() // a single replayed run cannot meet coverage floors
	}
	f(r)
	if *only >= 0 {
		r.Set("replay_only", *only)
	}
	r.Finish()
}
