// Command mutgen enumerates small syntactic mutants of the library sources
// (validation of the monitors, DESIGN §6): it never touches /repo, it prints
// or writes mutated copies of single files.
//
//	mutgen -tree /repo -list                 one line per mutant: id file:line operator detail
//	mutgen -tree /repo -id K -out FILE       writes the mutated source of mutant K to FILE, prints its relative path
//
// Operators: drop one operand of && / ||, negate an if condition, swap a
// relational operator for its neighbour, delete a call statement, delete an
// assignment, replace M() by F() and vice versa, drop a `return` guard body.
package main

import (
	"bytes"
	"flag"
	"fmt"
	"go/ast"
	"go/format"
	"go/parser"
	"go/token"
	"os"
	"path/filepath"
)

var files = []string{"dbft.go", "check.go", "send.go", "context.go", "helpers.go", "rtt.go", "timer/timer.go"}

type mutant struct {
	file, op, detail string
	line             int
	apply            func() func() // applies the mutation, returns the undo
}

func exprString(fset *token.FileSet, e ast.Node) string {
	var b bytes.Buffer
	_ = format.Node(&b, fset, e)
	s := b.String()
	if len(s) > 60 {
		s = s[:60] + "..."
	}
	return s
}

var relSwap = map[token.Token][]token.Token{
	token.LSS: {token.LEQ}, token.LEQ: {token.LSS}, token.GTR: {token.GEQ}, token.GEQ: {token.GTR},
	token.EQL: {token.NEQ}, token.NEQ: {token.EQL},
}

func collect(fset *token.FileSet, rel string, f *ast.File) []mutant {
	var res []mutant
	add := func(n ast.Node, op, detail string, apply func() func()) {
		res = append(res, mutant{file: rel, op: op, detail: detail, line: fset.Position(n.Pos()).Line, apply: apply})
	}
	// replace *slot (an expression position) by repl
	var walkExpr func(slot *ast.Expr)
	walkExpr = func(slot *ast.Expr) {
		e := *slot
		switch x := e.(type) {
		case *ast.ParenExpr:
			walkExpr(&x.X)
		case *ast.UnaryExpr:
			walkExpr(&x.X)
		case *ast.BinaryExpr:
			if x.Op == token.LAND || x.Op == token.LOR {
				l, r := x.X, x.Y
				add(x, "drop-right-operand", exprString(fset, x), func() func() { *slot = l; return func() { *slot = x } })
				add(x, "drop-left-operand", exprString(fset, x), func() func() { *slot = r; return func() { *slot = x } })
				walkExpr(&x.X)
				walkExpr(&x.Y)
				return
			}
			for _, alt := range relSwap[x.Op] {
				old, alt := x.Op, alt
				add(x, "relop "+old.String()+"->"+alt.String(), exprString(fset, x), func() func() { x.Op = alt; return func() { x.Op = old } })
			}
			if x.Op == token.SHL || x.Op == token.ADD || x.Op == token.SUB {
				old := x.Op
				alt := map[token.Token]token.Token{token.SHL: token.SHR, token.ADD: token.SUB, token.SUB: token.ADD}[old]
				add(x, "arith "+old.String()+"->"+alt.String(), exprString(fset, x), func() func() { x.Op = alt; return func() { x.Op = old } })
			}
			walkExpr(&x.X)
			walkExpr(&x.Y)
		case *ast.CallExpr:
			if sel, ok := x.Fun.(*ast.SelectorExpr); ok && len(x.Args) == 0 {
				if sel.Sel.Name == "M" || sel.Sel.Name == "F" {
					old := sel.Sel.Name
					alt := map[string]string{"M": "F", "F": "M"}[old]
					add(x, "quorum "+old+"()->"+alt+"()", exprString(fset, x), func() func() { sel.Sel.Name = alt; return func() { sel.Sel.Name = old } })
				}
			}
			for i := range x.Args {
				walkExpr(&x.Args[i])
			}
		}
	}
	var walkBlock func(b *ast.BlockStmt)
	var walkStmt func(s ast.Stmt)
	walkStmt = func(s ast.Stmt) {
		switch x := s.(type) {
		case *ast.IfStmt:
			cond := x.Cond
			add(x, "negate-if", exprString(fset, cond), func() func() {
				x.Cond = &ast.UnaryExpr{Op: token.NOT, X: &ast.ParenExpr{X: cond}}
				return func() { x.Cond = cond }
			})
			walkExpr(&x.Cond)
			walkBlock(x.Body)
			if x.Else != nil {
				walkStmt(x.Else)
			}
		case *ast.BlockStmt:
			walkBlock(x)
		case *ast.ForStmt:
			if x.Cond != nil {
				walkExpr(&x.Cond)
			}
			walkBlock(x.Body)
		case *ast.RangeStmt:
			walkBlock(x.Body)
		case *ast.SwitchStmt:
			for _, c := range x.Body.List {
				cc := c.(*ast.CaseClause)
				for i := range cc.List {
					walkExpr(&cc.List[i])
				}
				for _, st := range cc.Body {
					walkStmt(st)
				}
			}
		case *ast.AssignStmt:
			for i := range x.Rhs {
				walkExpr(&x.Rhs[i])
			}
		case *ast.ReturnStmt:
			for i := range x.Results {
				walkExpr(&x.Results[i])
			}
		case *ast.ExprStmt:
			walkExpr(&x.X)
		case *ast.DeferStmt:
			if fl, ok := x.Call.Fun.(*ast.FuncLit); ok {
				walkBlock(fl.Body)
			}
		}
	}
	walkBlock = func(b *ast.BlockStmt) {
		if b == nil {
			return
		}
		for i, s := range b.List {
			i, s := i, s
			switch x := s.(type) {
			case *ast.ExprStmt:
				if call, ok := x.X.(*ast.CallExpr); ok {
					// logging calls are not interesting
					if sel, ok := call.Fun.(*ast.SelectorExpr); ok {
						if id, ok := sel.X.(*ast.SelectorExpr); ok && id.Sel.Name == "Logger" {
							break
						}
					}
					add(x, "delete-call", exprString(fset, x), func() func() {
						b.List[i] = &ast.EmptyStmt{Semicolon: x.Pos(), Implicit: true}
						return func() { b.List[i] = s }
					})
				}
			case *ast.AssignStmt:
				if x.Tok == token.ASSIGN || x.Tok == token.ADD_ASSIGN || x.Tok == token.SUB_ASSIGN {
					add(x, "delete-assign", exprString(fset, x), func() func() {
						b.List[i] = &ast.EmptyStmt{Semicolon: x.Pos(), Implicit: true}
						return func() { b.List[i] = s }
					})
				}
			case *ast.ReturnStmt:
				if len(x.Results) == 0 && i == len(b.List)-1 && len(b.List) <= 3 {
					add(x, "delete-return", "guard body without its return", func() func() {
						b.List[i] = &ast.EmptyStmt{Semicolon: x.Pos(), Implicit: true}
						return func() { b.List[i] = s }
					})
				}
			}
			walkStmt(s)
		}
	}
	for _, d := range f.Decls {
		if fd, ok := d.(*ast.FuncDecl); ok && fd.Body != nil {
			walkBlock(fd.Body)
		}
	}
	return res
}

func main() {
	tree := flag.String("tree", "/repo", "library tree")
	list := flag.Bool("list", false, "list mutants")
	id := flag.Int("id", -1, "mutant to write")
	out := flag.String("out", "", "output file for -id")
	flag.Parse()
	n := 0
	for _, rel := range files {
		fset := token.NewFileSet()
		f, err := parser.ParseFile(fset, filepath.Join(*tree, rel), nil, parser.ParseComments)
		if err != nil {
			fmt.Fprintln(os.Stderr, err)
			os.Exit(2)
		}
		for _, m := range collect(fset, rel, f) {
			if *list {
				fmt.Printf("%d\t%s:%d\t%s\t%s\n", n, m.file, m.line, m.op, m.detail)
			}
			if n == *id {
				undo := m.apply()
				var b bytes.Buffer
				if err := format.Node(&b, fset, f); err != nil {
					fmt.Fprintln(os.Stderr, err)
					os.Exit(2)
				}
				undo()
				if err := os.WriteFile(*out, b.Bytes(), 0o644); err != nil {
					fmt.Fprintln(os.Stderr, err)
					os.Exit(2)
				}
				fmt.Println(m.file)
				return
			}
			n++
		}
	}
	if *id >= 0 {
		fmt.Fprintln(os.Stderr, "no such mutant")
		os.Exit(2)
	}
}
