package main

// Oracle family "fuzz": decoder robustness (arbitrary / mutated bytes -> error
// or a payload, never a panic or a runaway allocation) and the codec fixed
// point on everything the decoder accepts. Runs in child processes of this
// binary (-worker) under `ulimit -v` so that an offending input cannot take
// the whole check down; every input is written to a file before it is decoded.

import (
	"bytes"
	"context"
	"encoding/binary"
	"encoding/gob"
	"encoding/json"
	"errors"
	"fmt"
	"math/rand/v2"
	"os"
	"os/exec"
	"path/filepath"
	"strconv"
	"strings"
	"sync"
	"syscall"
	"time"

	"github.com/nspcc-dev/dbft/internal/consensus"
	"github.com/nspcc-dev/dbft/verifh/ev"
)

type fuzzViol struct {
	Sig     string         `json:"sig"`
	What    string         `json:"what"`
	Witness map[string]any `json:"witness"`
}

type fuzzResult struct {
	Evals      int64            `json:"evals"`
	Counters   map[string]int64 `json:"counters"`
	Distinct   []string         `json:"distinct"`
	Violations []fuzzViol       `json:"violations"`
	Samples    []any            `json:"samples"`
}

// mirror structures of the reference wire format (gob matches fields by name)
type fzPayloadAux struct {
	Version        uint32
	ValidatorIndex uint16
	PrevHash       [32]byte
	Height         uint32
	Data           []byte
}
type fzPayloadAuxBad struct {
	Version        string
	ValidatorIndex uint16
	Height         []byte
	Data           []byte
	Extra          map[string]int
}
type fzMessageAux struct {
	CMType     byte
	ViewNumber byte
	Payload    []byte
}
type fzPrepareRequestAux struct {
	TransactionHashes [][32]byte
	Nonce             uint64
	Timestamp         uint32
}
type fzHashAux struct{ PreparationHash [32]byte }
type fzTSAux struct{ Timestamp uint32 }
type fzSigAux struct{ Signature [64]byte }
type fzSigAuxShort struct{ Signature []byte }
type fzPrepC struct{ ValidatorIndex uint16 }
type fzPreCommitC struct {
	ViewNumber     byte
	ValidatorIndex uint16
	Data           []byte
}
type fzCommitC struct {
	ViewNumber     byte
	ValidatorIndex uint16
	Signature      [64]byte
}
type fzCVC struct {
	ValidatorIndex     uint16
	OriginalViewNumber byte
	Timestamp          uint32
}
type fzRecoveryAux struct {
	PreparationPayloads []fzPrepC
	PreCommitPayloads   []fzPreCommitC
	CommitPayloads      []fzCommitC
	ChangeViewPayloads  []fzCVC
}

func gobBytes(vals ...any) []byte {
	var buf bytes.Buffer
	enc := gob.NewEncoder(&buf)
	for _, v := range vals {
		if err := enc.Encode(v); err != nil {
			panic("c19: gob mirror encoding failed: " + err.Error())
		}
	}
	return buf.Bytes()
}

func randBytes(rng *rand.Rand, n int) []byte {
	b := make([]byte, n)
	fill(rng, b)
	return b
}

var fuzzBoundaryBytes = []byte{0x00, 0x01, 0x7f, 0x80, 0xf7, 0xf8, 0xf9, 0xfb, 0xfc, 0xfd, 0xfe, 0xff}

// structuredBody makes the innermost layer for message type t.
func structuredBody(rng *rand.Rand, t byte) []byte {
	switch rng.IntN(6) {
	case 0:
		return randBytes(rng, rng.IntN(64))
	case 1: // body of another kind (type confusion)
		t = byte(knownTypes[rng.IntN(len(knownTypes))])
	}
	switch t {
	case 0x20:
		n := rng.IntN(5)
		a := fzPrepareRequestAux{Nonce: genU64(rng), Timestamp: genU32(rng)}
		for i := 0; i < n; i++ {
			a.TransactionHashes = append(a.TransactionHashes, randHash(rng))
		}
		return gobBytes(&a)
	case 0x21:
		return gobBytes(&fzHashAux{randHash(rng)})
	case 0x00, 0x40:
		return gobBytes(&fzTSAux{genU32(rng)})
	case 0x30:
		if rng.IntN(4) == 0 {
			return gobBytes(&fzSigAuxShort{randBytes(rng, rng.IntN(130))})
		}
		var s fzSigAux
		fill(rng, s.Signature[:])
		return gobBytes(&s)
	case 0x41:
		var aux fzRecoveryAux
		for i, n := 0, rng.IntN(4); i < n; i++ {
			aux.PreparationPayloads = append(aux.PreparationPayloads, fzPrepC{genU16(rng)})
		}
		for i, n := 0, rng.IntN(3); i < n; i++ {
			aux.PreCommitPayloads = append(aux.PreCommitPayloads, fzPreCommitC{genU8(rng), genU16(rng), randBytes(rng, rng.IntN(7))})
		}
		for i, n := 0, rng.IntN(4); i < n; i++ {
			c := fzCommitC{ViewNumber: genU8(rng), ValidatorIndex: genU16(rng)}
			fill(rng, c.Signature[:])
			aux.CommitPayloads = append(aux.CommitPayloads, c)
		}
		for i, n := 0, rng.IntN(4); i < n; i++ {
			aux.ChangeViewPayloads = append(aux.ChangeViewPayloads, fzCVC{genU16(rng), genU8(rng), genU32(rng)})
		}
		switch rng.IntN(5) {
		case 0: // embedded request
			a := fzPrepareRequestAux{Nonce: genU64(rng), Timestamp: genU32(rng)}
			for i, n := 0, rng.IntN(4); i < n; i++ {
				a.TransactionHashes = append(a.TransactionHashes, randHash(rng))
			}
			return gobBytes(true, &a, &aux)
		case 1: // explicit preparation hash
			h := [32]byte(randHash(rng))
			return gobBytes(false, 32, &h, &aux)
		case 2: // no hash
			return gobBytes(false, 0, &aux)
		case 3: // wrong length marker
			h := [32]byte(randHash(rng))
			return gobBytes(false, []int{1, 31, 33, -1, 1 << 40}[rng.IntN(5)], &h, &aux)
		default: // truncated sequence
			return gobBytes(rng.IntN(2) == 0)
		}
	}
	return gobBytes(&fzTSAux{genU32(rng)})
}

func structuredInput(rng *rand.Rand) []byte {
	var t byte
	if rng.IntN(4) == 0 {
		t = byte(rng.Uint32())
	} else {
		t = byte(knownTypes[rng.IntN(len(knownTypes))])
	}
	var inner []byte
	if rng.IntN(8) == 0 {
		inner = randBytes(rng, rng.IntN(48))
	} else {
		inner = gobBytes(&fzMessageAux{CMType: t, ViewNumber: genU8(rng), Payload: structuredBody(rng, t)})
	}
	if rng.IntN(16) == 0 {
		return gobBytes(&fzPayloadAuxBad{Version: "x", ValidatorIndex: genU16(rng), Height: randBytes(rng, 3), Data: inner, Extra: map[string]int{"a": 1}})
	}
	a := fzPayloadAux{Version: genU32(rng), ValidatorIndex: genU16(rng), Height: genU32(rng), Data: inner}
	if rng.IntN(2) == 0 {
		a.PrevHash = randHash(rng)
	}
	if rng.IntN(3) != 0 {
		a.Version = 0
	}
	return gobBytes(&a)
}

var fuzzClasses = []string{"valid", "bitflip", "byteset", "truncate", "splice", "append", "structured", "random"}

// fuzzInput derives one input of class cl from a valid encoding base.
func fuzzInput(rng *rand.Rand, cl string, base []byte) []byte {
	b := append([]byte(nil), base...)
	switch cl {
	case "valid":
	case "bitflip":
		for i, n := 0, 1+rng.IntN(3); i < n && len(b) > 0; i++ {
			flipBit(rng, b)
		}
	case "byteset":
		for i, n := 0, 1+rng.IntN(2); i < n && len(b) > 0; i++ {
			p := rng.IntN(len(b))
			if rng.IntN(2) == 0 {
				b[p] = fuzzBoundaryBytes[rng.IntN(len(fuzzBoundaryBytes))]
			} else {
				b[p] = byte(rng.Uint32())
			}
		}
	case "truncate":
		if len(b) > 0 {
			b = b[:rng.IntN(len(b))]
		}
	case "splice":
		if len(b) > 2 {
			i := rng.IntN(len(b))
			j := i + rng.IntN(len(b)-i)
			switch rng.IntN(3) {
			case 0: // delete
				b = append(b[:i:i], b[j:]...)
			case 1: // duplicate
				b = append(append(append([]byte(nil), b[:j]...), b[i:j]...), b[j:]...)
			default: // insert random
				b = append(append(append([]byte(nil), b[:i]...), randBytes(rng, 1+rng.IntN(8))...), b[i:]...)
			}
		}
	case "append":
		if rng.IntN(2) == 0 {
			b = append(b, randBytes(rng, 1+rng.IntN(32))...)
		} else {
			b = append(b, base...)
		}
	case "structured":
		b = structuredInput(rng)
	case "random":
		n := rng.IntN(200)
		if rng.IntN(50) == 0 {
			n = 4096
		}
		b = randBytes(rng, n)
		if len(b) > 0 && rng.IntN(2) == 0 {
			b[0] = byte(len(b) - 1) // plausible gob length prefix
		}
	}
	return b
}

type fuzzWorker struct {
	res      fuzzResult
	distinct map[string]bool
	sigs     map[string]bool
	seed     int64
}

func (w *fuzzWorker) viol(sig, what string, wit map[string]any) {
	w.res.Counters["violations."+sig]++
	if w.sigs[sig] {
		return
	}
	w.sigs[sig] = true
	wit["seed"] = w.seed
	w.res.Violations = append(w.res.Violations, fuzzViol{sig, what, wit})
}

// checkOne feeds one input to the reference decoder and applies the oracles.
func (w *fuzzWorker) checkOne(cl, baseKind string, b []byte) {
	w.res.Evals++
	wit := func(extra map[string]any) map[string]any {
		m := map[string]any{"class": cl, "base_kind": baseKind, "input_hex": hx(b)}
		for k, v := range extra {
			m[k] = v
		}
		return m
	}
	q, err, pn := decode(b)
	if pn != nil {
		w.viol("decode-panic", fmt.Sprintf("UnmarshalUnsigned panics on %d input bytes: %v", len(b), pn), wit(nil))
		return
	}
	if err != nil {
		w.res.Counters["fuzz.rejected"]++
		w.res.Counters["fuzz.rejected."+cl]++
		w.distinct["fuzz|"+cl+"|rejected|"+errClass(err)] = true
		return
	}
	w.res.Counters["fuzz.accepted"]++
	w.res.Counters["fuzz.accepted."+cl]++
	kind := fmt.Sprintf("type%02x", byte(q.Type()))
	w.distinct["fuzz|"+cl+"|accepted|"+kind] = true
	// fixed point
	b2, pn := encode(q)
	if pn != nil {
		w.viol("encode-panic-after-decode", fmt.Sprintf("MarshalUnsigned of an accepted payload panics: %v", pn), wit(nil))
		return
	}
	b2b, _ := encode(q)
	if !bytes.Equal(b2, b2b) {
		w.viol("encode-unstable", "two MarshalUnsigned calls on one decoded payload differ", wit(map[string]any{"enc1": hx(b2), "enc2": hx(b2b)}))
	}
	q2, err2, pn := decode(b2)
	if pn != nil || err2 != nil {
		w.viol("fixedpoint-redecode-fails", fmt.Sprintf("decoder rejects the re-encoding of a payload it accepted: err=%v panic=%v", err2, pn), wit(map[string]any{"reencoded": hx(b2)}))
		return
	}
	primary := q.ValidatorIndex() + 1
	s1, pn1 := summarize(q, primary)
	s2, pn2 := summarize(q2, primary)
	if pn1 != nil || pn2 != nil {
		w.viol("getter-panic-after-decode", fmt.Sprintf("getter of an accepted payload panics: %v / %v", pn1, pn2), wit(nil))
		return
	}
	if s1 != s2 {
		w.viol("fixedpoint-content-mismatch", "decode(encode(q)) differs from q", wit(map[string]any{"q": s1, "q2": s2, "reencoded": hx(b2)}))
		return
	}
	b3, pn := encode(q2)
	if pn != nil || !bytes.Equal(b2, b3) {
		w.viol("fixedpoint-bytes-mismatch", "encode(decode(encode(q))) differs from encode(q)", wit(map[string]any{"enc_q": hx(b2), "enc_q2": hx(b3)}))
		return
	}
	h1, h1b, h2 := q.Hash(), q.Hash(), q2.Hash()
	if h1 != h1b || h1 != h2 {
		w.viol("fixedpoint-hash-mismatch", "Hash() of q and of decode(encode(q)) differ", wit(map[string]any{"hash_q": h1.String(), "hash_q_again": h1b.String(), "hash_q2": h2.String()}))
		return
	}
	w.res.Counters["fuzz.fixedpoint_checked"]++
	if !bytes.Equal(b, b2) {
		w.res.Counters["fuzz.accepted_noncanonical_input"]++
	}
	if len(w.res.Samples) < 1 && cl != "valid" && !bytes.Equal(b, b2) {
		w.res.Samples = append(w.res.Samples, map[string]any{"family": "fuzz", "class": cl, "base_kind": baseKind, "input_hex": hx(b),
			"decoded": s1, "reencoded_hex": hx(b2), "hash": h1.String(), "verdict": "accepted; decode(encode(q)) == q, hashes equal"})
	}
}

func errClass(err error) string {
	s := err.Error()
	for _, k := range []string{"invalid type", "EOF", "type mismatch", "wrong crypto.Uint256 length", "duplicate type", "too big", "bad data", "invalid message length", "unknown type id", "overflow", "extra data", "no fields matched"} {
		if strings.Contains(s, k) {
			return k
		}
	}
	return "other"
}

// fuzzWorkerMain is the entry point of the child process.
func fuzzWorkerMain(seed int64, shard, n int, cur, out, single string) {
	w := &fuzzWorker{res: fuzzResult{Counters: map[string]int64{}}, distinct: map[string]bool{}, sigs: map[string]bool{}, seed: seed}
	if single != "" {
		b, err := os.ReadFile(single)
		if err != nil {
			fmt.Fprintln(os.Stderr, "c19 worker: cannot read input:", err)
			os.Exit(3)
		}
		w.checkOne("single", "", b)
	} else {
		f, err := os.OpenFile(cur, os.O_CREATE|os.O_RDWR|os.O_TRUNC, 0o644)
		if err != nil {
			fmt.Fprintln(os.Stderr, "c19 worker: cannot open current-input file:", err)
			os.Exit(3)
		}
		rng := newRng(seed, "fuzz", shard)
		var base []byte
		var baseKind string
		rec := make([]byte, 0, 8192)
		for i := 0; i < n; i++ {
			if i%4 == 0 {
				baseKind = decodableKinds[(i/4)%len(decodableKinds)]
				var s spec
				if baseKind == kRecMsg {
					s = genRecovery(rng, false)
				} else {
					s = genSimple(rng, baseKind)
				}
				base = s.build().(*consensus.Payload).MarshalUnsigned()
			}
			cl := fuzzClasses[i%len(fuzzClasses)]
			b := fuzzInput(rng, cl, base)
			rec = rec[:0]
			rec = binary.LittleEndian.AppendUint32(rec, uint32(len(b)))
			rec = append(rec, b...)
			if _, err := f.WriteAt(rec, 0); err != nil {
				fmt.Fprintln(os.Stderr, "c19 worker: cannot record current input:", err)
				os.Exit(3)
			}
			w.checkOne(cl, baseKind, b)
		}
		_ = f.Close()
	}
	for k := range w.distinct {
		w.res.Distinct = append(w.res.Distinct, k)
	}
	j, _ := json.Marshal(&w.res)
	if err := os.WriteFile(out, j, 0o644); err != nil {
		fmt.Fprintln(os.Stderr, "c19 worker: cannot write result:", err)
		os.Exit(3)
	}
	os.Exit(0)
}

// ---------------------------------------------------------------- parent side

const fuzzVMLimitKB = 4000000

type childOutcome struct {
	res      *fuzzResult
	crashed  bool // died with a Go panic / fatal error
	timedOut bool
	other    string // any other failure (harness problem)
	stderr   string
}

func runChild(timeout time.Duration, args ...string) childOutcome {
	exe, err := os.Executable()
	if err != nil {
		return childOutcome{other: "os.Executable: " + err.Error()}
	}
	ctx, cancel := context.WithTimeout(context.Background(), timeout)
	defer cancel()
	var cmd *exec.Cmd
	if _, lerr := exec.LookPath("bash"); lerr == nil && !raceEnabled {
		script := fmt.Sprintf(`ulimit -v %d 2>/dev/null; exec "$0" "$@"`, fuzzVMLimitKB)
		cmd = exec.CommandContext(ctx, "bash", append([]string{"-c", script, exe}, args...)...)
	} else {
		cmd = exec.CommandContext(ctx, exe, args...)
	}
	cmd.Env = append(os.Environ(), "GOMAXPROCS=2")
	var stderr bytes.Buffer
	cmd.Stderr = &stderr
	cmd.Stdout = &stderr
	err = cmd.Run()
	o := childOutcome{stderr: tail(stderr.String(), 3000)}
	if ctx.Err() != nil {
		o.timedOut = true
		return o
	}
	if err != nil {
		var ee *exec.ExitError
		if errors.As(err, &ee) {
			ws, _ := ee.Sys().(syscall.WaitStatus)
			txt := stderr.String()
			goCrash := strings.Contains(txt, "panic:") || strings.Contains(txt, "fatal error:") || strings.Contains(txt, "goroutine ")
			if goCrash && !(ws.Signaled() && ws.Signal() == syscall.SIGKILL) {
				o.crashed = true
				return o
			}
			o.other = fmt.Sprintf("worker failed: %v; stderr: %s", err, tail(txt, 300))
			return o
		}
		o.other = "cannot run worker: " + err.Error()
		return o
	}
	return o
}

func tail(s string, n int) string {
	if len(s) > n {
		return s[:n/2] + " ... " + s[len(s)-n/2:]
	}
	return s
}

func readResult(path string) (*fuzzResult, error) {
	b, err := os.ReadFile(path)
	if err != nil {
		return nil, err
	}
	var r fuzzResult
	if err := json.Unmarshal(b, &r); err != nil {
		return nil, err
	}
	return &r, nil
}

// runFuzz launches the shards and merges their results.
func (e *engine) runFuzz(shards, perShard int, timeout time.Duration) {
	work := ev.Work()
	var wg sync.WaitGroup
	sem := make(chan struct{}, e.fuzzParallel)
	for sh := 0; sh < shards; sh++ {
		wg.Add(1)
		go func(sh int) {
			defer wg.Done()
			sem <- struct{}{}
			defer func() { <-sem }()
			cur := filepath.Join(work, fmt.Sprintf("c19-fuzz-%d.cur", sh))
			out := filepath.Join(work, fmt.Sprintf("c19-fuzz-%d.json", sh))
			_ = os.Remove(out)
			o := runChild(timeout, "-worker", "-seed", strconv.FormatInt(e.r.Seed, 10), "-shard", strconv.Itoa(sh),
				"-n", strconv.Itoa(perShard), "-cur", cur, "-out", out)
			e.mergeChild(sh, o, cur, out, timeout)
		}(sh)
	}
	wg.Wait()
}

func readCurrent(cur string) ([]byte, bool) {
	b, err := os.ReadFile(cur)
	if err != nil || len(b) < 4 {
		return nil, false
	}
	n := int(binary.LittleEndian.Uint32(b))
	if n > len(b)-4 {
		return nil, false
	}
	return b[4 : 4+n], true
}

func (e *engine) mergeChild(sh int, o childOutcome, cur, out string, timeout time.Duration) {
	switch {
	case o.timedOut:
		in, _ := readCurrent(cur)
		e.r.Inconclusive(fmt.Sprintf("fuzz worker %d hit the %s watchdog (last recorded input: %s)", sh, timeout, tail(hx(in), 400)))
		return
	case o.other != "":
		e.r.Inconclusive(fmt.Sprintf("fuzz worker %d: %s", sh, o.other))
		return
	case o.crashed:
		in, ok := readCurrent(cur)
		if !ok {
			e.r.Inconclusive(fmt.Sprintf("fuzz worker %d crashed but its current input is unreadable; stderr: %s", sh, tail(o.stderr, 400)))
			return
		}
		// confirm on the single input, and make sure a benign input does not crash the same way
		work := ev.Work()
		bad := filepath.Join(work, fmt.Sprintf("c19-fuzz-%d.offender", sh))
		ok1 := filepath.Join(work, fmt.Sprintf("c19-fuzz-%d.benign", sh))
		_ = os.WriteFile(bad, in, 0o644)
		_ = os.WriteFile(ok1, []byte{}, 0o644)
		sout := filepath.Join(work, fmt.Sprintf("c19-fuzz-%d.single.json", sh))
		again := runChild(timeout, "-worker", "-single", bad, "-out", sout)
		benign := runChild(timeout, "-worker", "-single", ok1, "-out", sout)
		if again.crashed && !benign.crashed && benign.other == "" && !benign.timedOut {
			e.viol("decoder-crash", "the decoder takes the whole process down (Go panic / fatal error) on a specific input",
				map[string]any{"input_hex": hx(in), "stderr": tail(again.stderr, 1500), "vm_limit_kb": fuzzVMLimitKB, "shard": sh})
		} else {
			e.r.Inconclusive(fmt.Sprintf("fuzz worker %d crashed but the crash is not reproducible on its last input alone (or a benign input crashes too); stderr: %s", sh, tail(o.stderr, 400)))
		}
		return
	}
	res, err := readResult(out)
	if err != nil {
		e.r.Inconclusive(fmt.Sprintf("fuzz worker %d left no readable result: %v", sh, err))
		return
	}
	e.r.Eval(res.Evals)
	e.r.Count("fuzz.cases", res.Evals)
	for k, v := range res.Counters {
		e.r.Count(k, v)
	}
	for _, d := range res.Distinct {
		e.r.Distinct(d)
	}
	for _, v := range res.Violations {
		v.Witness["shard"] = sh
		e.viol(v.Sig, v.What, v.Witness)
	}
	for _, s := range res.Samples {
		s := s
		e.sample("fuzz", func() any { return s })
	}
}
