// Command c19 is the runtime-monitoring engine of property C19: it executes the
// real reference payload / block / crypto / Merkle code of the tree under test
// on generated inputs and judges every result with oracles written here.
//
//	hash      Hash() of payloads binds type, height, view, validator index, body
//	block     Hash() of blocks binds index, prev hash, timestamp, nonce, tx list; Sign/Verify
//	codec     MarshalUnsigned -> UnmarshalUnsigned of built payloads reproduces them
//	fuzz      decoder robustness + fixed point on accepted bytes (child processes)
//	recovery  payloads rebuilt from a recovery message equal the genuine ones
//	sig       ECDSA sign/verify, Hash256/Hash160
//	merkle    root sensitivity
package main

import (
	"flag"
	"fmt"
	"os"
	"runtime"
	"sort"
	"strconv"
	"sync"
	"time"

	"github.com/nspcc-dev/dbft/verifh/ev"
)

type engine struct {
	r            *ev.Run
	keys         []keyPair
	fuzzParallel int

	mu      sync.Mutex
	sigs    map[string]int64
	samples map[string]any

	fieldMu sync.Mutex
	fields  map[string]int64 // asserted mutation class -> evaluated cases
}

func (e *engine) addFields(local map[string]int64) {
	e.fieldMu.Lock()
	for k, v := range local {
		e.fields[k] += v
	}
	e.fieldMu.Unlock()
}

// viol reports the first violation of every structural signature and counts the rest.
func (e *engine) viol(sig, what string, witness map[string]any) {
	e.mu.Lock()
	e.sigs[sig]++
	first := e.sigs[sig] == 1
	e.mu.Unlock()
	if !first {
		return
	}
	if witness == nil {
		witness = map[string]any{}
	}
	if _, ok := witness["seed"]; !ok {
		witness["seed"] = e.r.Seed
	}
	witness["tier"] = e.r.Tier
	witness["tree"] = ev.Tree()
	e.r.Violation(sig, what, witness)
}

// sample keeps the first sample of a family.
func (e *engine) sample(family string, f func() any) {
	e.mu.Lock()
	_, have := e.samples[family]
	e.mu.Unlock()
	if have {
		return
	}
	v := f()
	e.mu.Lock()
	if _, have := e.samples[family]; !have {
		e.samples[family] = v
	}
	e.mu.Unlock()
}

type plan struct {
	hashChunks, hashSpecs     int
	blockChunks, blockSpecs   int
	codecChunks, codecSpecs   int
	fuzzShards, fuzzPerShard  int
	recChunks, recCases       int
	sigChunks, sigCases       int
	hashfnChunks, hashfnCases int
	merkleRounds              int
	keys                      int
	fuzzTimeout               time.Duration
}

var plans = map[string]plan{
	"quick": {
		hashChunks: 64, hashSpecs: 110,
		blockChunks: 32, blockSpecs: 60,
		codecChunks: 32, codecSpecs: 600,
		fuzzShards: 8, fuzzPerShard: 8000,
		recChunks: 32, recCases: 300,
		sigChunks: 32, sigCases: 12,
		hashfnChunks: 16, hashfnCases: 40,
		merkleRounds: 2, keys: 16, fuzzTimeout: 10 * time.Minute,
	},
	"thorough": {
		hashChunks: 64, hashSpecs: 5500,
		blockChunks: 32, blockSpecs: 3000,
		codecChunks: 32, codecSpecs: 30000,
		fuzzShards: 16, fuzzPerShard: 200000,
		recChunks: 32, recCases: 15000,
		sigChunks: 64, sigCases: 300,
		hashfnChunks: 16, hashfnCases: 2000,
		merkleRounds: 40, keys: 64, fuzzTimeout: 40 * time.Minute,
	},
}

const merkleMaxSize = 257

func main() {
	prop := flag.String("prop", "C19", "property id")
	worker := flag.Bool("worker", false, "run as fuzz child process")
	wSeed := flag.Int64("seed", 1, "worker: seed")
	wShard := flag.Int("shard", 0, "worker: shard number")
	wN := flag.Int("n", 0, "worker: number of inputs")
	wCur := flag.String("cur", "", "worker: file recording the input being decoded")
	wOut := flag.String("out", "", "worker: result file")
	wSingle := flag.String("single", "", "worker: decode just this file")
	flag.Parse()
	if *worker {
		fuzzWorkerMain(*wSeed, *wShard, *wN, *wCur, *wOut, *wSingle)
		return
	}
	if *prop != "C19" {
		fmt.Fprintf(os.Stderr, "c19: unknown property %s\n", *prop)
		os.Exit(2)
	}
	r := ev.New("C19")
	pl := plans[r.Tier]
	e := &engine{r: r, sigs: map[string]int64{}, samples: map[string]any{}, fields: map[string]int64{}}
	e.fuzzParallel = runtime.NumCPU() / 2
	if e.fuzzParallel < 2 {
		e.fuzzParallel = 2
	}
	e.keys = makeKeys(r.Seed, pl.keys)

	r.SetRule("cases are a pure function of (tier, seed): per oracle family a fixed number of chunks, each with its own PCG stream derived from (seed, family, chunk), " +
		"mixing boundary lists (0,1,0x7f,0x80,0xff..,max; tx-list sizes 0..33 and 64+; Merkle sizes 1..257 all) with uniform values. " +
		"hash/block: one case = one (generated content, single-field mutation) pair evaluated on the real Hash() (plus stability/copy cases); " +
		"codec: one built payload pushed through MarshalUnsigned/UnmarshalUnsigned and compared getter by getter with the oracle's own rendering of its content; " +
		"fuzz: one byte string (valid, bit-flipped, byte-set, truncated, spliced, extended, structure-aware gob mirror, random) fed to UnmarshalUnsigned in a child process under ulimit -v, accepted ones re-encoded and re-decoded; " +
		"recovery: one generated (height, view, primary, proposal, responders, committers, change-viewers, pre-committers) scenario; sig: one Verify call on a generated (key, message, signature variant); merkle: one (leaf list, mutation). " +
		"distinct_nontrivial = distinct (family, payload kind / class, mutated field or outcome, size class) keys actually exercised")
	r.Assume("SHA-256 collisions and ECDSA forgeries do not occur by chance among the generated cases (a hash that stays equal after a mutation is therefore an unbound field, not a collision)")
	r.Assume("whole-second timestamps within the uint32 range are the domain of the reference wire format; sub-second parts are legitimately not on the wire")
	r.Assume("the ECDSA Sign of the reference code draws its nonce from crypto/rand, so signature bytes differ between runs; case classes and counts do not")
	r.Set("observations_not_asserted", observationsNotAsserted)
	r.Set("tree", ev.Tree())

	var tasks []func()
	for c := 0; c < pl.hashChunks; c++ {
		c := c
		tasks = append(tasks, func() { e.runHashChunk(c, pl.hashSpecs) })
	}
	for c := 0; c < pl.blockChunks; c++ {
		c := c
		tasks = append(tasks, func() { e.runBlockChunk(c, pl.blockSpecs) })
	}
	for c := 0; c < pl.codecChunks; c++ {
		c := c
		tasks = append(tasks, func() { e.runCodecChunk(c, pl.codecSpecs) })
	}
	for c := 0; c < pl.recChunks; c++ {
		c := c
		tasks = append(tasks, func() { e.runRecoveryChunk(c, pl.recCases) })
	}
	for c := 0; c < pl.sigChunks; c++ {
		c := c
		tasks = append(tasks, func() { e.runSigChunk(c, pl.sigCases) })
	}
	for c := 0; c < pl.hashfnChunks; c++ {
		c := c
		tasks = append(tasks, func() { e.runHashFnChunk(c, pl.hashfnCases) })
	}
	const merkleChunks = 16
	for c := 0; c < merkleChunks; c++ {
		// interleave sizes so that chunks have similar cost
		c := c
		tasks = append(tasks, func() {
			for n := 1 + c; n <= merkleMaxSize; n += merkleChunks {
				e.runMerkleChunk(c*1000+n, n, n+1, pl.merkleRounds)
			}
		})
	}

	var wg sync.WaitGroup
	wg.Add(1)
	go func() {
		defer wg.Done()
		e.runFuzz(pl.fuzzShards, pl.fuzzPerShard, pl.fuzzTimeout)
	}()
	ch := make(chan func())
	nw := runtime.NumCPU()
	for i := 0; i < nw; i++ {
		wg.Add(1)
		go func() {
			defer wg.Done()
			for t := range ch {
				func() {
					defer func() {
						if p := recover(); p != nil {
							buf := make([]byte, 4096)
							buf = buf[:runtime.Stack(buf, false)]
							r.Inconclusive(fmt.Sprintf("engine task panicked (harness problem): %v\n%s", p, buf))
						}
					}()
					t()
				}()
			}
		}()
	}
	for _, t := range tasks {
		ch <- t
	}
	close(ch)
	wg.Wait()

	// coverage floors: a family that silently evaluated (almost) nothing makes the run inconclusive
	q := func(quick, thorough int64) int64 {
		if r.Thorough() {
			return thorough
		}
		return quick
	}
	r.Floor("hash.stability_cases", q(5000, 250000))
	r.Floor("hash.mutation_cases", q(40000, 2000000))
	r.Floor("block.stability_cases", q(1500, 75000))
	r.Floor("block.mutation_cases", q(12000, 600000))
	r.Floor("block.sign_cases", q(300, 15000))
	r.Floor("block.verify_cases", q(300, 15000))
	r.Floor("codec.roundtrip_cases", q(10000, 500000))
	r.Floor("codec.tx64_cases", q(1500, 75000))
	r.Floor("fuzz.cases", int64(pl.fuzzShards*pl.fuzzPerShard))
	r.Floor("fuzz.accepted", q(8000, 400000))
	r.Floor("fuzz.rejected", q(8000, 400000))
	r.Floor("fuzz.fixedpoint_checked", q(8000, 400000))
	r.Floor("recovery.scenarios", q(9000, 450000))
	r.Floor("recovery.rebuilt_requests", q(4000, 200000))
	r.Floor("recovery.rebuilt_PrepareResponses", q(5000, 250000))
	r.Floor("recovery.rebuilt_Commits", q(5000, 250000))
	r.Floor("recovery.rebuilt_ChangeViews", q(5000, 250000))
	r.Floor("recovery.rebuilt_PreCommits", q(2000, 100000))
	r.Floor("sig.accept_cases", q(350, 18000))
	r.Floor("sig.reject_cases", q(10000, 500000))
	r.Floor("hashfn.cases", q(5000, 250000))
	r.Floor("merkle.cases", q(4000, 80000))

	// every asserted (kind, field) class must have been exercised
	e.requireFieldCoverage()

	e.mu.Lock()
	for _, fam := range []string{"hash", "fuzz", "recovery", "sig", "merkle"} {
		if s, ok := e.samples[fam]; ok {
			r.Sample(s)
		}
	}
	var extra []string
	for s, n := range e.sigs {
		if n > 1 {
			extra = append(extra, s+" x"+strconv.FormatInt(n, 10))
		}
	}
	e.mu.Unlock()
	if len(extra) > 0 {
		sort.Strings(extra)
		r.Set("violation_signature_counts", extra)
	}
	r.Finish()
}

// requireFieldCoverage makes the run inconclusive when an asserted single-field
// mutation class of some payload kind / block kind was never evaluated.
func (e *engine) requireFieldCoverage() {
	e.fieldMu.Lock()
	defer e.fieldMu.Unlock()
	var missing []string
	for _, kind := range allKinds {
		for _, m := range kindMutations(kind) {
			if m.obs != "" && notAsserted(m.obs) {
				continue
			}
			if e.fields["hash|"+kind+"|"+m.field] == 0 {
				missing = append(missing, "hash|"+kind+"|"+m.field)
			}
		}
	}
	for _, kind := range []string{"neoBlock", "amevBlock"} {
		for _, m := range blockMutations() {
			if m.obs != "" && notAsserted(m.obs) {
				continue
			}
			if (kind == "neoBlock" && m.field == "amev_commit_data") || (kind == "amevBlock" && m.field == "tx_bitflip") {
				continue
			}
			if e.fields["block|"+kind+"|"+m.field] == 0 {
				missing = append(missing, "block|"+kind+"|"+m.field)
			}
		}
	}
	if len(missing) > 0 {
		sort.Strings(missing)
		e.r.Inconclusive(fmt.Sprintf("mutation classes never exercised: %v", missing))
	}
	e.r.Set("mutation_class_cases", e.fields)
}
