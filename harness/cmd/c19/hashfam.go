package main

// Oracle family "hash": Hash() of the reference payloads binds every
// consensus-relevant field (type, height, view, validator index, body), is
// stable across calls and equal for independently built equal content.

import (
	"fmt"
	"math/rand/v2"

	"github.com/nspcc-dev/dbft"
)

// Names of observations: behaviours of the reference code that are measured and
// printed into the evidence but NOT asserted. Removing a name from
// observationsNotAsserted turns the corresponding check into an assertion.
const (
	obsSubSecond       = "timestamp.subsecond_part_not_on_wire"
	obsCVNewView       = "changeview.new_view_number_not_on_wire(decoder derives view+1)"
	obsCVReason        = "changeview.reason_ignored_by_constructor"
	obsRecPreCommit    = "recovery.precommit_compacts_not_on_wire"
	obsRecEnvelope     = "recovery.preparation_hash_not_on_wire_when_request_embedded"
	obsRecCompact      = "recovery.compaction_drops_item_fields(changeview timestamp, response hash)"
	obsPreCommitDecode = "precommit.message_decoder_has_no_PreCommitType_case"
	obsAMEVDecode      = "amevcommit.not_decodable_as_commit(field name Data vs Signature)"
	obsRecCommitView   = "recovery.rebuilt_commit_takes_recovery_view_not_compact_view"
	obsRecNoHashNoResp = "recovery.responses_unrecoverable_without_preparation_hash"
	obsMerkleDupTail   = "merkle.duplicate_tail_collision(odd list + copy of last leaf)"
	obsSigShortPanics  = "ecdsa.verify_panics_on_signature_shorter_than_64_bytes"
	obsSigMalleable    = "ecdsa.high_s_twin_signature_accepted"
	obsBlockSetTx      = "neoBlock.hash_binds_tx_hashes_given_to_NewBlock_not_the_SetTransactions_argument"
	obsBlockZero       = "neoBlock.hash_is_zero_until_SetTransactions_is_called"
)

var observationsNotAsserted = []string{
	obsSubSecond, obsCVNewView, obsCVReason, obsRecPreCommit, obsRecEnvelope, obsRecCompact,
	obsPreCommitDecode, obsAMEVDecode, obsRecCommitView, obsRecNoHashNoResp, obsMerkleDupTail,
	obsSigShortPanics, obsSigMalleable, obsBlockSetTx, obsBlockZero,
}

func notAsserted(name string) bool {
	for _, n := range observationsNotAsserted {
		if n == name {
			return true
		}
	}
	return false
}

type mutation struct {
	field string
	obs   string // non-empty: expected NOT to change the hash in the reference code (observation)
	apply func(rng *rand.Rand, s *spec) bool
}

func diffU32(rng *rand.Rand, old uint32) uint32 {
	for {
		var v uint32
		switch rng.IntN(5) {
		case 0:
			v = old ^ (1 << rng.IntN(32))
		case 1:
			v = old + 1
		case 2:
			v = old - 1
		case 3:
			v = boundaryU32[rng.IntN(len(boundaryU32))]
		default:
			v = rng.Uint32()
		}
		if v != old {
			return v
		}
	}
}
func diffU16(rng *rand.Rand, old uint16) uint16 {
	for {
		var v uint16
		switch rng.IntN(4) {
		case 0:
			v = old ^ (1 << rng.IntN(16))
		case 1:
			v = old + 1
		case 2:
			v = boundaryU16[rng.IntN(len(boundaryU16))]
		default:
			v = uint16(rng.Uint32())
		}
		if v != old {
			return v
		}
	}
}
func diffU8(rng *rand.Rand, old byte) byte {
	for {
		var v byte
		switch rng.IntN(4) {
		case 0:
			v = old ^ (1 << rng.IntN(8))
		case 1:
			v = old + 1
		case 2:
			v = boundaryU8[rng.IntN(len(boundaryU8))]
		default:
			v = byte(rng.Uint32())
		}
		if v != old {
			return v
		}
	}
}
func diffU64(rng *rand.Rand, old uint64) uint64 {
	for {
		var v uint64
		switch rng.IntN(4) {
		case 0:
			v = old ^ (1 << rng.IntN(64))
		case 1:
			v = old + 1
		case 2:
			v = boundaryU64[rng.IntN(len(boundaryU64))]
		default:
			v = rng.Uint64()
		}
		if v != old {
			return v
		}
	}
}

// diffSeconds changes the whole-seconds part (within uint32) and keeps the sub-second part.
func diffSeconds(rng *rand.Rand, ts uint64) uint64 {
	sec, sub := uint32(ts/nsPerSec), ts%nsPerSec
	return uint64(diffU32(rng, sec))*nsPerSec + sub
}

// diffSubSecond changes the sub-second part only.
func diffSubSecond(rng *rand.Rand, ts uint64) uint64 {
	sec, sub := ts/nsPerSec, ts%nsPerSec
	for {
		v := rng.Uint64N(nsPerSec)
		if v != sub {
			return sec*nsPerSec + v
		}
	}
}

func flipBit(rng *rand.Rand, b []byte) {
	i := rng.IntN(len(b) * 8)
	b[i/8] ^= 1 << (i % 8)
}

// tx list mutations shared by payloads, blocks and Merkle.
func txReplace(rng *rand.Rand, l []h256) ([]h256, bool) {
	if len(l) == 0 {
		return nil, false
	}
	c := append([]h256(nil), l...)
	i := pickPos(rng, len(c))
	for {
		h := randHash(rng)
		if h != c[i] {
			c[i] = h
			return c, true
		}
	}
}
func txBitflip(rng *rand.Rand, l []h256) ([]h256, bool) {
	if len(l) == 0 {
		return nil, false
	}
	c := append([]h256(nil), l...)
	i := pickPos(rng, len(c))
	flipBit(rng, c[i][:])
	return c, true
}
func txSwap(rng *rand.Rand, l []h256) ([]h256, bool) {
	if len(l) < 2 {
		return nil, false
	}
	c := append([]h256(nil), l...)
	for try := 0; try < 16; try++ {
		i, j := pickPos(rng, len(c)), pickPos(rng, len(c))
		if i != j && c[i] != c[j] {
			c[i], c[j] = c[j], c[i]
			return c, true
		}
	}
	return nil, false
}
func txRemove(rng *rand.Rand, l []h256) ([]h256, bool) {
	if len(l) == 0 {
		return nil, false
	}
	i := pickPos(rng, len(l))
	c := append([]h256(nil), l[:i]...)
	c = append(c, l[i+1:]...)
	return c, true
}
func txAppend(rng *rand.Rand, l []h256) ([]h256, bool) {
	c := append([]h256(nil), l...)
	for {
		h := randHash(rng)
		fresh := true
		for _, x := range c {
			if x == h {
				fresh = false
			}
		}
		if fresh {
			return append(c, h), true
		}
	}
}

// pickPos prefers the boundary positions (first, last).
func pickPos(rng *rand.Rand, n int) int {
	switch rng.IntN(4) {
	case 0:
		return 0
	case 1:
		return n - 1
	}
	return rng.IntN(n)
}

func itemsOf(s *spec, kinds ...string) []int {
	var r []int
	for i := range s.Items {
		for _, k := range kinds {
			if s.Items[i].Kind == k {
				r = append(r, i)
			}
		}
	}
	return r
}

func hasEmbeddedRequest(s *spec) int {
	idx := -1
	for i := range s.Items {
		if s.Items[i].Kind == kPrepReq {
			idx = i
		}
	}
	return idx
}

var commonMutations = []mutation{
	{"type", "", func(rng *rand.Rand, s *spec) bool {
		for {
			var t dbft.MessageType
			if rng.IntN(3) == 0 {
				t = dbft.MessageType(rng.Uint32())
			} else {
				t = knownTypes[rng.IntN(len(knownTypes))]
			}
			if t != s.Type {
				s.Type = t
				return true
			}
		}
	}},
	{"height", "", func(rng *rand.Rand, s *spec) bool { s.Height = diffU32(rng, s.Height); return true }},
	{"view", "", func(rng *rand.Rand, s *spec) bool { s.View = diffU8(rng, s.View); return true }},
	{"validator_index", "", func(rng *rand.Rand, s *spec) bool { s.Index = diffU16(rng, s.Index); return true }},
}

func txMutations(prefix string, get func(s *spec) *[]h256) []mutation {
	wrap := func(f func(*rand.Rand, []h256) ([]h256, bool)) func(*rand.Rand, *spec) bool {
		return func(rng *rand.Rand, s *spec) bool {
			p := get(s)
			if p == nil {
				return false
			}
			l, ok := f(rng, *p)
			if ok {
				*p = l
			}
			return ok
		}
	}
	return []mutation{
		{prefix + "tx_replace", "", wrap(txReplace)},
		{prefix + "tx_bitflip", "", wrap(txBitflip)},
		{prefix + "tx_swap", "", wrap(txSwap)},
		{prefix + "tx_remove", "", wrap(txRemove)},
		{prefix + "tx_append", "", wrap(txAppend)},
	}
}

func kindMutations(kind string) []mutation {
	m := append([]mutation(nil), commonMutations...)
	tsSec := mutation{"timestamp_seconds", "", func(rng *rand.Rand, s *spec) bool { s.TS = diffSeconds(rng, s.TS); return true }}
	tsSub := mutation{"timestamp_subsecond", obsSubSecond, func(rng *rand.Rand, s *spec) bool { s.TS = diffSubSecond(rng, s.TS); return true }}
	switch kind {
	case kPrepReq:
		m = append(m, tsSec, tsSub,
			mutation{"nonce", "", func(rng *rand.Rand, s *spec) bool { s.Nonce = diffU64(rng, s.Nonce); return true }})
		m = append(m, txMutations("", func(s *spec) *[]h256 { return &s.Tx })...)
	case kPrepResp:
		m = append(m,
			mutation{"preparation_hash_bitflip", "", func(rng *rand.Rand, s *spec) bool { flipBit(rng, s.PrepHash[:]); return true }},
			mutation{"preparation_hash_replace", "", func(rng *rand.Rand, s *spec) bool {
				for {
					h := randHash(rng)
					if h != s.PrepHash {
						s.PrepHash = h
						return true
					}
				}
			}})
	case kCV:
		m = append(m, tsSec, tsSub,
			mutation{"new_view_only", obsCVNewView, func(rng *rand.Rand, s *spec) bool { s.NewView = diffU8(rng, s.NewView); return true }},
			mutation{"reason", obsCVReason, func(rng *rand.Rand, s *spec) bool { s.Reason = diffU8(rng, s.Reason); return true }})
	case kCommit, kAMEVCom:
		m = append(m,
			mutation{"signature_bitflip", "", func(rng *rand.Rand, s *spec) bool { flipBit(rng, s.Sig[:]); return true }},
			mutation{"signature_replace", "", func(rng *rand.Rand, s *spec) bool {
				old := s.Sig
				for s.Sig == old {
					fill(rng, s.Sig[:])
				}
				return true
			}})
	case kPreCom:
		m = append(m, mutation{"data", "", func(rng *rand.Rand, s *spec) bool {
			if rng.IntN(2) == 0 {
				flipBit(rng, s.PreData[:])
				return true
			}
			old := s.PreData
			for s.PreData == old {
				fill(rng, s.PreData[:])
			}
			return true
		}})
	case kRecReq:
		m = append(m, tsSec, tsSub)
	case kRecMsg:
		m = append(m, recoveryMutations()...)
	}
	return m
}

func recoveryMutations() []mutation {
	addItem := func(kind string) func(*rand.Rand, *spec) bool {
		return func(rng *rand.Rand, s *spec) bool {
			it := genSimple(rng, kind)
			it.Height, it.View = s.Height, s.View
			if kind == kCV {
				it.NewView = it.View + 1
			}
			it.Index = uint16(rng.IntN(21))
			s.Items = append(s.Items, it)
			return true
		}
	}
	onItem := func(f func(*rand.Rand, *spec), kinds ...string) func(*rand.Rand, *spec) bool {
		return func(rng *rand.Rand, s *spec) bool {
			c := itemsOf(s, kinds...)
			if len(c) == 0 {
				return false
			}
			f(rng, &s.Items[c[rng.IntN(len(c))]])
			return true
		}
	}
	m := []mutation{
		{"rec_add_response", "", addItem(kPrepResp)},
		{"rec_add_commit", "", addItem(kCommit)},
		{"rec_add_changeview", "", addItem(kCV)},
		{"rec_add_request", "", func(rng *rand.Rand, s *spec) bool {
			if hasEmbeddedRequest(s) >= 0 {
				return false
			}
			return addItem(kPrepReq)(rng, s)
		}},
		{"rec_remove_item", "", func(rng *rand.Rand, s *spec) bool {
			c := itemsOf(s, kPrepReq, kPrepResp, kCommit, kCV)
			if len(c) == 0 {
				return false
			}
			i := c[rng.IntN(len(c))]
			s.Items = append(append([]spec(nil), s.Items[:i]...), s.Items[i+1:]...)
			return true
		}},
		{"rec_item_validator_index", "", onItem(func(rng *rand.Rand, it *spec) { it.Index = diffU16(rng, it.Index) }, kPrepResp, kCommit, kCV)},
		{"rec_commit_signature", "", onItem(func(rng *rand.Rand, it *spec) { flipBit(rng, it.Sig[:]) }, kCommit)},
		{"rec_commit_view", "", onItem(func(rng *rand.Rand, it *spec) { it.View = diffU8(rng, it.View) }, kCommit)},
		{"rec_changeview_original_view", "", onItem(func(rng *rand.Rand, it *spec) { it.View = diffU8(rng, it.View) }, kCV)},
		{"rec_request_nonce", "", onItem(func(rng *rand.Rand, it *spec) { it.Nonce = diffU64(rng, it.Nonce) }, kPrepReq)},
		{"rec_request_timestamp_seconds", "", onItem(func(rng *rand.Rand, it *spec) { it.TS = diffSeconds(rng, it.TS) }, kPrepReq)},
		{"rec_preparation_hash", "", func(rng *rand.Rand, s *spec) bool {
			if hasEmbeddedRequest(s) >= 0 {
				return false
			}
			if s.RecPrepHash == nil {
				h := randHash(rng)
				s.RecPrepHash = &h
			} else if rng.IntN(3) == 0 {
				s.RecPrepHash = nil
			} else {
				flipBit(rng, s.RecPrepHash[:])
			}
			return true
		}},
		// observations (reference wire format omissions)
		{"rec_add_precommit", obsRecPreCommit, addItem(kPreCom)},
		{"rec_precommit_data", obsRecPreCommit, onItem(func(rng *rand.Rand, it *spec) { flipBit(rng, it.PreData[:]) }, kPreCom)},
		{"rec_request_envelope", obsRecEnvelope, onItem(func(rng *rand.Rand, it *spec) {
			switch rng.IntN(3) {
			case 0:
				it.Index = diffU16(rng, it.Index)
			case 1:
				it.Height = diffU32(rng, it.Height)
			default:
				it.View = diffU8(rng, it.View)
			}
		}, kPrepReq)},
		{"rec_changeview_timestamp", obsRecCompact, onItem(func(rng *rand.Rand, it *spec) { it.TS = diffSeconds(rng, it.TS) }, kCV)},
		{"rec_response_hash", obsRecCompact, onItem(func(rng *rand.Rand, it *spec) { flipBit(rng, it.PrepHash[:]) }, kPrepResp)},
	}
	for _, tm := range txMutations("rec_request_", func(s *spec) *[]h256 {
		if i := hasEmbeddedRequest(s); i >= 0 {
			return &s.Items[i].Tx
		}
		return nil
	}) {
		m = append(m, tm)
	}
	return m
}

func specSizeClass(s *spec) string {
	switch s.Kind {
	case kPrepReq:
		return "tx=" + sizeClass(len(s.Tx))
	case kRecMsg:
		req := 0
		if hasEmbeddedRequest(s) >= 0 {
			req = 1
		}
		ph := 0
		if s.RecPrepHash != nil {
			ph = 1
		}
		return fmt.Sprintf("req=%d,ph=%d,items=%s", req, ph, sizeClass(len(s.Items)))
	}
	return "-"
}

// runHashChunk evaluates nSpecs generated payload specs (round-robin over all
// kinds) with every applicable single-field mutation.
func (e *engine) runHashChunk(chunk, nSpecs int) {
	rng := newRng(e.r.Seed, "hash", chunk)
	var evals int64
	fields := map[string]int64{}
	defer func() { e.addFields(fields) }()
	for i := 0; i < nSpecs; i++ {
		kind := allKinds[(chunk+i)%len(allKinds)]
		s := genSpec(rng, kind)
		p := s.build()
		h0 := p.Hash()
		// stability: repeated calls, after MarshalUnsigned, independently built equal copy
		h0b := p.Hash()
		_ = p.(interface{ MarshalUnsigned() []byte }).MarshalUnsigned()
		h0c := p.Hash()
		hCopy := s.clone().build().Hash()
		evals++
		e.r.Count("hash.stability_cases", 1)
		e.r.Distinct("hash|" + kind + "|stable|" + specSizeClass(&s))
		if h0 != h0b || h0 != h0c {
			e.viol("hash-unstable:"+kind, "Hash() of one payload object differs between calls",
				map[string]any{"chunk": chunk, "case": i, "spec": s.J(), "hashes": []string{h0.String(), h0b.String(), h0c.String()}})
		}
		if h0 != hCopy {
			e.viol("hash-not-content-function:"+kind, "two independently built payloads with equal content have different hashes",
				map[string]any{"chunk": chunk, "case": i, "spec": s.J(), "hash": h0.String(), "copy_hash": hCopy.String()})
		}
		for _, m := range kindMutations(kind) {
			ms := s.clone()
			if !m.apply(rng, &ms) {
				continue
			}
			h1 := ms.build().Hash()
			evals++
			if m.obs != "" && notAsserted(m.obs) {
				if h1 == h0 {
					e.r.Count("obs."+m.obs+".hash_unchanged", 1)
				} else {
					e.r.Count("obs."+m.obs+".hash_changed", 1)
				}
				continue
			}
			e.r.Count("hash.mutation_cases", 1)
			fields["hash|"+kind+"|"+m.field]++
			e.r.Distinct("hash|" + kind + "|" + m.field + "|" + specSizeClass(&s))
			if h1 == h0 {
				e.viol("hash-unbound:"+kind+":"+m.field,
					fmt.Sprintf("changing %s of a %s payload does not change Hash()", m.field, kind),
					map[string]any{"chunk": chunk, "case": i, "field": m.field, "spec": s.J(), "mutated": ms.J(), "hash": h0.String()})
			} else {
				e.sample("hash", func() any {
					return map[string]any{"family": "hash", "kind": kind, "mutated_field": m.field, "spec": s.J(),
						"mutated": ms.J(), "hash": h0.String(), "mutated_hash": h1.String(), "verdict": "hash changed"}
				})
			}
		}
	}
	e.r.Eval(evals)
}
