package main

// Oracle family "recovery": payloads rebuilt from a recovery message equal the
// genuine ones (the proposal has the original hash, so rebuilt responses,
// which name that hash, match it).

import (
	"bytes"
	"fmt"
	"math/rand/v2"

	"github.com/nspcc-dev/dbft"
	"github.com/nspcc-dev/dbft/internal/consensus"
)

type recScenario struct {
	N        int
	Height   uint32
	View     byte
	Sender   uint16
	Primary  uint16
	Request  *spec  // genuine proposal (nil: sender has none)
	ExplPH   *h256  // NewRecoveryMessage(&h) form (only without Request)
	Resp     []spec // genuine responses
	Commits  []spec
	OldCom   []spec // commits carrying another view than the recovery message (observation)
	CVs      []spec
	PreComs  []spec
	Order    []int // interleaving seed for AddPayload order
	viaCodec bool  // additionally push the recovery payload through encode/decode
}

func (sc *recScenario) J() map[string]any {
	l := func(ss []spec) []any {
		r := make([]any, len(ss))
		for i := range ss {
			r[i] = ss[i].J()
		}
		return r
	}
	m := map[string]any{"n": sc.N, "height": sc.Height, "view": sc.View, "sender": sc.Sender, "primary": sc.Primary,
		"responses": l(sc.Resp), "commits": l(sc.Commits), "commits_other_view": l(sc.OldCom), "change_views": l(sc.CVs), "pre_commits": l(sc.PreComs), "via_codec": sc.viaCodec}
	if sc.Request != nil {
		m["request"] = sc.Request.J()
	}
	if sc.ExplPH != nil {
		m["explicit_preparation_hash"] = sc.ExplPH.String()
	}
	return m
}

func genScenario(rng *rand.Rand) *recScenario {
	sc := &recScenario{N: []int{1, 4, 4, 7, 7, 10, 13, 21}[rng.IntN(8)], Height: genU32(rng), View: genU8(rng)}
	sc.Sender = uint16(rng.IntN(sc.N))
	sc.Primary = uint16(rng.IntN(sc.N))
	base := func(kind string, idx int) spec {
		s := genSimple(rng, kind)
		s.Height, s.View, s.Index = sc.Height, sc.View, uint16(idx)
		if kind == kCV {
			s.NewView = s.View + 1
		}
		return s
	}
	mode := rng.IntN(6)
	var ph h256
	havePH := false
	if mode <= 3 {
		r := base(kPrepReq, int(sc.Primary))
		if rng.IntN(10) == 0 {
			r.TS = rng.Uint64() // arbitrary nanoseconds, also beyond the uint32-seconds range
		}
		sc.Request = &r
		ph = r.build().Hash()
		havePH = true
	} else if mode == 4 {
		h := randHash(rng)
		sc.ExplPH = &h
		ph = h
		havePH = true
	}
	subset := func() []int {
		p := rng.Perm(sc.N)
		k := rng.IntN(sc.N + 1)
		if rng.IntN(4) == 0 {
			k = 0
		}
		return p[:k]
	}
	for _, i := range subset() {
		if sc.Request != nil && i == int(sc.Primary) {
			continue
		}
		s := base(kPrepResp, i)
		if havePH {
			s.PrepHash = ph
		}
		sc.Resp = append(sc.Resp, s)
	}
	for _, i := range subset() {
		s := base(kCommit, i)
		if rng.IntN(6) == 0 {
			s.View = diffU8(rng, s.View)
			sc.OldCom = append(sc.OldCom, s)
		} else {
			sc.Commits = append(sc.Commits, s)
		}
	}
	for _, i := range subset() {
		s := base(kCV, i)
		if rng.IntN(2) == 0 {
			s.View = genU8(rng) // change views collected in earlier views
			s.NewView = s.View + 1
		}
		sc.CVs = append(sc.CVs, s)
	}
	if rng.IntN(2) == 0 {
		for _, i := range subset() {
			sc.PreComs = append(sc.PreComs, base(kPreCom, i))
		}
	}
	total := len(sc.Resp) + len(sc.Commits) + len(sc.OldCom) + len(sc.CVs) + len(sc.PreComs) + 1
	sc.Order = rng.Perm(total)
	sc.viaCodec = rng.IntN(4) == 0
	return sc
}

func cnt(n int) string {
	switch {
	case n == 0:
		return "0"
	case n == 1:
		return "1"
	case n <= 3:
		return "2-3"
	}
	return "4+"
}

func (e *engine) runRecoveryChunk(chunk, n int) {
	rng := newRng(e.r.Seed, "recovery", chunk)
	var evals int64
	for i := 0; i < n; i++ {
		sc := genScenario(rng)
		evals++
		e.checkScenario(chunk, i, sc)
	}
	e.r.Eval(evals)
}

func (e *engine) checkScenario(chunk, ci int, sc *recScenario) {
	wit := func(extra map[string]any) map[string]any {
		m := map[string]any{"chunk": chunk, "case": ci, "scenario": sc.J()}
		for k, v := range extra {
			m[k] = v
		}
		return m
	}
	defer func() {
		if p := recover(); p != nil {
			e.viol("recovery-panic", fmt.Sprintf("recovery message code panics: %v", p), wit(nil))
		}
	}()
	// genuine payloads, AddPayload in a generated interleaving
	type orig struct {
		s spec
		p dbft.ConsensusPayload[h256]
	}
	var all []orig
	add := func(ss []spec) {
		for _, s := range ss {
			all = append(all, orig{s, s.build()})
		}
	}
	if sc.Request != nil {
		add([]spec{*sc.Request})
	}
	add(sc.Resp)
	add(sc.Commits)
	add(sc.OldCom)
	add(sc.CVs)
	add(sc.PreComs)
	var ph *h256
	if sc.ExplPH != nil {
		h := *sc.ExplPH
		ph = &h
	}
	rm := consensus.NewRecoveryMessage(ph)
	origByKey := map[string]orig{}
	for _, oi := range sc.Order {
		if oi >= len(all) {
			continue
		}
		o := all[oi]
		rm.AddPayload(o.p)
		origByKey[fmt.Sprintf("%s/%d", o.s.Kind, o.s.Index)] = o
	}
	rec := consensus.NewConsensusPayload(dbft.RecoveryMessageType, sc.Height, sc.Sender, sc.View, rm)
	path := "memory"
	if sc.viaCodec && sc.Request == nil {
		// without an embedded request the wire form keeps everything needed below except pre-commits
		b, pn := encode(rec.(*consensus.Payload))
		q, err, pn2 := decode(b)
		if pn != nil || pn2 != nil || err != nil {
			e.viol("recovery-codec-failure", fmt.Sprintf("recovery payload does not survive the codec: err=%v panic=%v/%v", err, pn, pn2), wit(map[string]any{"encoded": hx(b)}))
			return
		}
		rec, rm, path = q, q.GetRecoveryMessage(), "codec"
	}
	validators := e.pubs(sc.N)
	e.r.Count("recovery.scenarios", 1)
	e.r.Distinct(fmt.Sprintf("recovery|%s|req=%v,explph=%v|resp=%s,commit=%s,cv=%s,pre=%s", path, sc.Request != nil, sc.ExplPH != nil,
		cnt(len(sc.Resp)), cnt(len(sc.Commits)), cnt(len(sc.CVs)), cnt(len(sc.PreComs))))

	// --- proposal
	req := rm.GetPrepareRequest(rec, validators, sc.Primary)
	var propHash h256
	if sc.Request == nil {
		if req != nil {
			e.viol("recovery-request-from-nothing", "GetPrepareRequest returns a proposal although none was added", wit(nil))
		}
		if sc.ExplPH != nil {
			propHash = *sc.ExplPH
		}
	} else {
		o := origByKey[fmt.Sprintf("%s/%d", kPrepReq, sc.Request.Index)]
		propHash = o.p.Hash()
		e.r.Count("recovery.rebuilt_requests", 1)
		if req == nil {
			e.viol("recovery-request-missing", "GetPrepareRequest returns nil although the proposal was added", wit(nil))
		} else {
			if h := req.Hash(); h != propHash {
				e.viol("recovery-request-hash", "the proposal rebuilt from a recovery message does not have the original proposal's hash",
					wit(map[string]any{"original_hash": propHash.String(), "rebuilt_hash": h.String(),
						"rebuilt": fmt.Sprintf("type=%02x height=%d view=%d index=%d", byte(req.Type()), req.Height(), req.ViewNumber(), req.ValidatorIndex())}))
			}
			want, _ := summ(o.p, 0, false)
			got, pn := summ(req, 0, false)
			if pn != nil || want != got {
				e.viol("recovery-request-content", fmt.Sprintf("rebuilt proposal differs from the original (panic=%v)", pn), wit(map[string]any{"want": want, "got": got}))
			}
			if pr := rm.PreparationHash(); pr == nil || *pr != propHash {
				e.viol("recovery-preparation-hash", "PreparationHash() is not the hash of the added proposal", wit(nil))
			}
			e.sample("recovery", func() any {
				return map[string]any{"family": "recovery", "scenario": sc.J(), "original_proposal_hash": propHash.String(), "rebuilt_proposal_hash": req.Hash().String(),
					"rebuilt_responses": len(rm.GetPrepareResponses(rec, validators)), "verdict": "rebuilt proposal and responses match the originals"}
			})
		}
	}

	// generic comparison of a rebuilt list with the originals
	check := func(name, kind string, got []dbft.ConsensusPayload[h256], wantSpecs []spec, cmp func(g dbft.ConsensusPayload[h256], o orig) string) {
		if len(got) != len(wantSpecs) {
			e.viol("recovery-"+name+"-count", fmt.Sprintf("Get%s returns %d payloads, %d were added", name, len(got), len(wantSpecs)), wit(nil))
			return
		}
		seen := map[uint16]bool{}
		for _, g := range got {
			e.r.Count("recovery.rebuilt_"+name, 1)
			o, ok := origByKey[fmt.Sprintf("%s/%d", kind, g.ValidatorIndex())]
			if !ok || seen[g.ValidatorIndex()] {
				e.viol("recovery-"+name+"-index", fmt.Sprintf("rebuilt %s carries validator index %d that was not added (or twice)", name, g.ValidatorIndex()), wit(nil))
				continue
			}
			seen[g.ValidatorIndex()] = true
			if g.Type() != naturalType(kind) || g.Height() != sc.Height {
				e.viol("recovery-"+name+"-envelope", fmt.Sprintf("rebuilt %s has type %02x height %d", name, byte(g.Type()), g.Height()), wit(map[string]any{"index": g.ValidatorIndex()}))
				continue
			}
			if d := cmp(g, o); d != "" {
				e.viol("recovery-"+name+"-content", fmt.Sprintf("rebuilt %s of validator %d: %s", name, g.ValidatorIndex(), d), wit(map[string]any{"index": g.ValidatorIndex()}))
			}
		}
	}

	// --- responses
	resps := rm.GetPrepareResponses(rec, validators)
	if sc.Request == nil && sc.ExplPH == nil {
		if notAsserted(obsRecNoHashNoResp) {
			if len(sc.Resp) > 0 {
				if len(resps) == 0 {
					e.r.Count("obs."+obsRecNoHashNoResp+".responses_dropped", 1)
				} else {
					e.r.Count("obs."+obsRecNoHashNoResp+".responses_returned", 1)
				}
			}
		} else if len(resps) != len(sc.Resp) {
			e.viol("recovery-PrepareResponses-count", "responses are lost without a preparation hash", wit(nil))
		}
	} else {
		check("PrepareResponses", kPrepResp, resps, sc.Resp, func(g dbft.ConsensusPayload[h256], o orig) string {
			if g.ViewNumber() != sc.View {
				return fmt.Sprintf("view %d, want %d", g.ViewNumber(), sc.View)
			}
			if h := g.GetPrepareResponse().PreparationHash(); h != propHash {
				return fmt.Sprintf("names %s, the proposal hash is %s", h, propHash)
			}
			if g.Hash() != o.p.Hash() {
				return fmt.Sprintf("hash %s differs from the genuine response's %s", g.Hash(), o.p.Hash())
			}
			return ""
		})
	}

	// --- commits (same view as the recovery message)
	commits := rm.GetCommits(rec, validators)
	var sameView []dbft.ConsensusPayload[h256]
	for _, g := range commits {
		if o, ok := origByKey[fmt.Sprintf("%s/%d", kCommit, g.ValidatorIndex())]; ok && o.s.View != sc.View {
			// commit sent in another view: the compact form stores that view, the rebuilt payload does not use it
			same := g.ViewNumber() == o.s.View
			sigOK := bytes.Equal(g.GetCommit().Signature(), o.s.Sig[:])
			if notAsserted(obsRecCommitView) {
				if same {
					e.r.Count("obs."+obsRecCommitView+".view_preserved", 1)
				} else {
					e.r.Count("obs."+obsRecCommitView+".view_replaced_by_recovery_view", 1)
				}
			} else if !same {
				e.viol("recovery-Commits-view", "rebuilt commit does not carry the view it was sent in", wit(map[string]any{"index": g.ValidatorIndex()}))
			}
			if !sigOK {
				e.viol("recovery-Commits-content", "rebuilt commit (other view) has another signature", wit(map[string]any{"index": g.ValidatorIndex()}))
			}
			continue
		}
		sameView = append(sameView, g)
	}
	if len(commits) != len(sc.Commits)+len(sc.OldCom) {
		e.viol("recovery-Commits-count", fmt.Sprintf("GetCommits returns %d payloads, %d were added", len(commits), len(sc.Commits)+len(sc.OldCom)), wit(nil))
	}
	check("Commits", kCommit, sameView, sc.Commits, func(g dbft.ConsensusPayload[h256], o orig) string {
		if g.ViewNumber() != o.s.View {
			return fmt.Sprintf("view %d, want %d", g.ViewNumber(), o.s.View)
		}
		if !bytes.Equal(g.GetCommit().Signature(), o.s.Sig[:]) {
			return "signature differs"
		}
		if g.Hash() != o.p.Hash() {
			return "hash differs from the genuine commit's"
		}
		return ""
	})

	// --- change views
	check("ChangeViews", kCV, rm.GetChangeViews(rec, validators), sc.CVs, func(g dbft.ConsensusPayload[h256], o orig) string {
		if nv := g.GetChangeView().NewViewNumber(); nv != o.s.View+1 {
			return fmt.Sprintf("newView %d, want original view %d + 1", nv, o.s.View)
		}
		return ""
	})

	// --- pre-commits (in memory only: not on the wire)
	if path == "memory" {
		check("PreCommits", kPreCom, rm.GetPreCommits(rec, validators), sc.PreComs, func(g dbft.ConsensusPayload[h256], o orig) string {
			if !bytes.Equal(g.GetPreCommit().Data(), o.s.PreData[:]) {
				return "data differs"
			}
			if g.ViewNumber() != sc.View {
				return "view differs"
			}
			if g.Hash() != o.p.Hash() {
				return "hash differs from the genuine pre-commit's"
			}
			return ""
		})
	} else if len(sc.PreComs) > 0 {
		n := len(rm.GetPreCommits(rec, validators))
		if !notAsserted(obsRecPreCommit) && n != len(sc.PreComs) {
			e.viol("recovery-PreCommits-count", "pre-commits are lost by the codec", wit(nil))
		} else if n == 0 {
			e.r.Count("obs."+obsRecPreCommit+".dropped_by_codec", 1)
		} else {
			e.r.Count("obs."+obsRecPreCommit+".kept_by_codec", 1)
		}
	}
}
