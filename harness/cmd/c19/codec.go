package main

// Oracle family "codec" (round trip of built payloads) and the canonical
// getter-level summary of a payload used for deep comparison.

import (
	"bytes"
	"fmt"
	"strings"

	"github.com/nspcc-dev/dbft"
	"github.com/nspcc-dev/dbft/internal/consensus"
)

// decode runs the reference decoder on b; a panic is returned, not propagated.
func decode(b []byte) (p *consensus.Payload, err error, panicked any) {
	defer func() {
		if r := recover(); r != nil {
			panicked = r
		}
	}()
	p = new(consensus.Payload)
	err = p.UnmarshalUnsigned(b)
	return
}

func encode(p *consensus.Payload) (b []byte, panicked any) {
	defer func() {
		if r := recover(); r != nil {
			panicked = r
		}
	}()
	return p.MarshalUnsigned(), nil
}

func hashList(l []h256) string {
	ss := make([]string, len(l))
	for i := range l {
		ss[i] = l[i].String()
	}
	return "[" + strings.Join(ss, ",") + "]"
}

func envelope(t dbft.MessageType, height uint32, view byte, index uint16) string {
	return fmt.Sprintf("T=%02x H=%d V=%d I=%d", byte(t), height, view, index)
}

// summarize renders everything the exported getters tell about p. primary is the
// index handed to RecoveryMessage.GetPrepareRequest.
func summarize(p dbft.ConsensusPayload[h256], primary uint16) (s string, panicked any) {
	return summ(p, primary, true)
}

func summ(p dbft.ConsensusPayload[h256], primary uint16, top bool) (s string, panicked any) {
	defer func() {
		if r := recover(); r != nil {
			panicked = r
		}
	}()
	var sb strings.Builder
	sb.WriteString(envelope(p.Type(), p.Height(), p.ViewNumber(), p.ValidatorIndex()))
	if pp, ok := p.(*consensus.Payload); ok && top {
		fmt.Fprintf(&sb, " ver=%d prev=%s", pp.Version(), pp.PrevHash())
	}
	sb.WriteString(" | ")
	switch p.Type() {
	case dbft.PrepareRequestType:
		r := p.GetPrepareRequest()
		fmt.Fprintf(&sb, "req ts=%d nonce=%d tx=%s", r.Timestamp(), r.Nonce(), hashList(r.TransactionHashes()))
	case dbft.PrepareResponseType:
		fmt.Fprintf(&sb, "resp h=%s", p.GetPrepareResponse().PreparationHash())
	case dbft.ChangeViewType:
		fmt.Fprintf(&sb, "cv nv=%d", p.GetChangeView().NewViewNumber())
	case dbft.CommitType:
		fmt.Fprintf(&sb, "commit sig=%s", hx(p.GetCommit().Signature()))
	case dbft.PreCommitType:
		fmt.Fprintf(&sb, "precommit data=%s", hx(p.GetPreCommit().Data()))
	case dbft.RecoveryRequestType:
		fmt.Fprintf(&sb, "recreq ts=%d", p.GetRecoveryRequest().Timestamp())
	case dbft.RecoveryMessageType:
		rm := p.GetRecoveryMessage()
		if ph := rm.PreparationHash(); ph == nil {
			sb.WriteString("rec ph=nil")
		} else {
			fmt.Fprintf(&sb, "rec ph=%s", *ph)
		}
		if req := rm.GetPrepareRequest(p, nil, primary); req == nil {
			sb.WriteString(" req=nil")
		} else {
			sub, pn := summ(req, 0, false)
			if pn != nil {
				panic(pn)
			}
			fmt.Fprintf(&sb, " req={%s #%s}", sub, req.Hash())
		}
		for _, part := range []struct {
			name string
			l    []dbft.ConsensusPayload[h256]
		}{
			{"resps", rm.GetPrepareResponses(p, nil)},
			{"commits", rm.GetCommits(p, nil)},
			{"cvs", rm.GetChangeViews(p, nil)},
			{"precommits", rm.GetPreCommits(p, nil)},
		} {
			fmt.Fprintf(&sb, " %s=[", part.name)
			for i, x := range part.l {
				if i > 0 {
					sb.WriteString("; ")
				}
				sub, pn := summ(x, 0, false)
				if pn != nil {
					panic(pn)
				}
				sb.WriteString(sub)
			}
			sb.WriteString("]")
		}
	default:
		fmt.Fprintf(&sb, "unknown-type")
	}
	return sb.String(), nil
}

func wholeSeconds(ts uint64) uint64 { return uint64(uint32(ts/nsPerSec)) * nsPerSec }

// expectDecoded is the oracle's prediction of summarize(decode(encode(build(s)))),
// written from the spec alone (with the documented omissions of the reference
// wire format applied for recovery messages). noted collects which omissions mattered.
func expectDecoded(s spec, primary uint16, noted map[string]bool) string {
	var sb strings.Builder
	sb.WriteString(envelope(s.Type, s.Height, s.View, s.Index))
	fmt.Fprintf(&sb, " ver=0 prev=%s | ", h256{})
	sb.WriteString(expectBody(s, primary, noted, true))
	return sb.String()
}

func expectBody(s spec, primary uint16, noted map[string]bool, decoded bool) string {
	switch s.Kind {
	case kPrepReq:
		return fmt.Sprintf("req ts=%d nonce=%d tx=%s", wholeSeconds(s.TS), s.Nonce, hashList(s.Tx))
	case kPrepResp:
		return fmt.Sprintf("resp h=%s", s.PrepHash)
	case kCV:
		if decoded {
			return fmt.Sprintf("cv nv=%d", s.View+1)
		}
		return fmt.Sprintf("cv nv=%d", s.NewView)
	case kCommit, kAMEVCom:
		return fmt.Sprintf("commit sig=%s", hx(s.Sig[:]))
	case kPreCom:
		return fmt.Sprintf("precommit data=%s", hx(s.PreData[:]))
	case kRecReq:
		return fmt.Sprintf("recreq ts=%d", wholeSeconds(s.TS))
	}
	// recovery message
	var sb strings.Builder
	reqIdx := hasEmbeddedRequest(&s)
	var ph *h256
	if reqIdx >= 0 {
		h := s.Items[reqIdx].build().Hash()
		ph = &h
	} else if s.RecPrepHash != nil {
		ph = s.RecPrepHash
	}
	if decoded && reqIdx >= 0 {
		ph = nil // not on the wire when the request is embedded
		noted[obsRecEnvelope] = true
	}
	if ph == nil {
		sb.WriteString("rec ph=nil")
	} else {
		fmt.Fprintf(&sb, "rec ph=%s", *ph)
	}
	if reqIdx < 0 {
		sb.WriteString(" req=nil")
	} else {
		r := s.Items[reqIdx].clone()
		r.Height, r.View, r.Index = s.Height, s.View, primary
		fmt.Fprintf(&sb, " req={%s | %s #%s}", envelope(dbft.PrepareRequestType, r.Height, r.View, r.Index), expectBody(r, 0, noted, decoded), r.build().Hash())
	}
	var resps, commits, cvs, pres []string
	for _, it := range s.Items {
		switch it.Kind {
		case kPrepResp:
			if ph != nil {
				resps = append(resps, fmt.Sprintf("%s | resp h=%s", envelope(dbft.PrepareResponseType, s.Height, s.View, it.Index), *ph))
			} else if reqIdx >= 0 {
				noted[obsRecEnvelope+"(responses lost)"] = true
			} else {
				noted[obsRecNoHashNoResp] = true
			}
		case kCommit:
			commits = append(commits, fmt.Sprintf("%s | commit sig=%s", envelope(dbft.CommitType, s.Height, s.View, it.Index), hx(it.Sig[:])))
		case kCV:
			cvs = append(cvs, fmt.Sprintf("%s | cv nv=%d", envelope(dbft.ChangeViewType, s.Height, s.View, it.Index), it.View+1))
		case kPreCom:
			if decoded {
				noted[obsRecPreCommit] = true
			} else {
				pres = append(pres, fmt.Sprintf("%s | precommit data=%s", envelope(dbft.PreCommitType, s.Height, s.View, it.Index), hx(it.PreData[:])))
			}
		}
	}
	fmt.Fprintf(&sb, " resps=[%s] commits=[%s] cvs=[%s] precommits=[%s]",
		strings.Join(resps, "; "), strings.Join(commits, "; "), strings.Join(cvs, "; "), strings.Join(pres, "; "))
	return sb.String()
}

// runCodecChunk: MarshalUnsigned -> UnmarshalUnsigned of built payloads.
func (e *engine) runCodecChunk(chunk, nSpecs int) {
	rng := newRng(e.r.Seed, "codec", chunk)
	var evals int64
	var reused *consensus.Payload
	for i := 0; i < nSpecs; i++ {
		kind := allKinds[(chunk+i)%len(allKinds)]
		s := genSpec(rng, kind)
		if kind == kCV && rng.IntN(8) == 0 {
			s.NewView = diffU8(rng, s.NewView) // a form the library never builds: observation only
		}
		primary := genU16(rng)
		p := s.build().(*consensus.Payload)
		b, pn := encode(p)
		w := func(extra map[string]any) map[string]any {
			m := map[string]any{"chunk": chunk, "case": i, "spec": s.J(), "encoded": hx(b), "primary": primary}
			for k, v := range extra {
				m[k] = v
			}
			return m
		}
		evals++
		if pn != nil {
			e.viol("encode-panic:"+kind, fmt.Sprintf("MarshalUnsigned panics: %v", pn), w(nil))
			continue
		}
		q, err, pn := decode(b)
		if pn != nil {
			e.viol("decode-panic:"+kind, fmt.Sprintf("UnmarshalUnsigned of a library-encoded payload panics: %v", pn), w(nil))
			continue
		}
		if kind == kPreCom || kind == kAMEVCom {
			name := obsPreCommitDecode
			if kind == kAMEVCom {
				name = obsAMEVDecode
			}
			if notAsserted(name) {
				if err != nil {
					e.r.Count("obs."+name+".decode_error", 1)
				} else {
					e.r.Count("obs."+name+".decode_ok", 1)
				}
				continue
			}
		}
		if err != nil {
			e.viol("roundtrip-decode-error:"+kind, "decoder rejects the library's own encoding: "+err.Error(), w(nil))
			continue
		}
		if kind == kCV && s.NewView != s.View+1 {
			if notAsserted(obsCVNewView) {
				if q.GetChangeView().NewViewNumber() == s.NewView {
					e.r.Count("obs."+obsCVNewView+".survives_roundtrip", 1)
				} else {
					e.r.Count("obs."+obsCVNewView+".lost_in_roundtrip", 1)
				}
				continue
			}
		}
		e.r.Count("codec.roundtrip_cases", 1)
		e.r.Distinct("codec|" + kind + "|roundtrip|" + specSizeClass(&s))
		noted := map[string]bool{}
		want := expectDecoded(s, primary, noted)
		got, pn := summarize(q, primary)
		if pn != nil {
			e.viol("getter-panic:"+kind, fmt.Sprintf("getter of a decoded payload panics: %v", pn), w(nil))
			continue
		}
		for n := range noted {
			e.r.Count("obs."+n+".roundtrip_cases", 1)
		}
		if got != want {
			e.viol("roundtrip-mismatch:"+kind, "decoded payload differs from the content that was encoded", w(map[string]any{"want": want, "got": got}))
			continue
		}
		hq0 := q.Hash()
		if hq, hp := hq0, p.Hash(); hq != hp {
			e.viol("roundtrip-hash-mismatch:"+kind, "Hash() changes across MarshalUnsigned/UnmarshalUnsigned", w(map[string]any{"hash": hp.String(), "decoded_hash": hq.String()}))
			continue
		}
		// "a hash is a function of the content only": decoding this content into an object that
		// held (and hashed) other content before must give the same hash as a fresh object
		if reused == nil {
			reused = new(consensus.Payload)
			_ = reused.UnmarshalUnsigned(b)
		}
		_ = reused.Hash()
		if err := reused.UnmarshalUnsigned(b); err == nil {
			e.r.Count("codec.redecode_into_used_object", 1)
			if hr := reused.Hash(); hr != hq0 {
				e.viol("hash-not-function-of-content:"+kind, "Hash() of an object that was decoded into again does not reflect its new content", w(map[string]any{"fresh_hash": hq0.String(), "reused_object_hash": hr.String()}))
				continue
			}
		}
		b2, pn := encode(q)
		if pn != nil || !bytes.Equal(b, b2) {
			e.viol("roundtrip-reencode-mismatch:"+kind, fmt.Sprintf("re-encoding the decoded payload gives other bytes (panic=%v)", pn), w(map[string]any{"reencoded": hx(b2)}))
			continue
		}
		// before encoding, the built object itself must show the spec through its getters
		// (no omissions apply in memory except those of AddPayload compaction)
		if kind != kRecMsg {
			gotMem, pn := summarize(p, primary)
			wantMem := envelope(s.Type, s.Height, s.View, s.Index) + fmt.Sprintf(" ver=0 prev=%s | ", h256{}) + expectBody(s, primary, map[string]bool{}, false)
			if pn != nil || gotMem != wantMem {
				e.viol("getter-mismatch:"+kind, fmt.Sprintf("getters of a built payload do not return its content (panic=%v)", pn), w(map[string]any{"want": wantMem, "got": gotMem}))
			}
		}
	}
	// Tx64.UnmarshalBinary: the other exported decoder of the reference code
	for i := 0; i < nSpecs/8; i++ {
		n := []int{0, 1, 7, 8, 8, 8, 9, 16}[rng.IntN(8)]
		b := make([]byte, n)
		fill(rng, b)
		evals++
		e.r.Count("codec.tx64_cases", 1)
		e.r.Distinct(fmt.Sprintf("codec|Tx64|len=%d", n))
		func() {
			defer func() {
				if p := recover(); p != nil {
					e.viol("tx64-decode-panic", fmt.Sprintf("Tx64.UnmarshalBinary panics: %v", p), map[string]any{"input_hex": hx(b)})
				}
			}()
			var t consensus.Tx64
			err := t.UnmarshalBinary(b)
			if n != 8 {
				if err == nil {
					e.viol("tx64-accepts-wrong-length", "Tx64.UnmarshalBinary accepts input that is not 8 bytes", map[string]any{"input_hex": hx(b)})
				}
				return
			}
			out, _ := t.MarshalBinary()
			th := t.Hash()
			if err != nil || !bytes.Equal(out, b) || !bytes.Equal(th[:8], b) {
				e.viol("tx64-roundtrip", fmt.Sprintf("Tx64 does not round-trip: err=%v", err), map[string]any{"input_hex": hx(b), "output_hex": hx(out)})
			}
		}()
	}
	e.r.Eval(evals)
}
