package main

// Oracle family "block": Hash() of the reference blocks (neoBlock via NewBlock,
// amevBlock via NewPreBlock/NewAMEVBlock) binds index, previous hash,
// timestamp (whole seconds), nonce and the transaction list incl. order; it is
// not affected by Sign; Verify is consistent with Sign.

import (
	"encoding/binary"
	"fmt"
	"math/rand/v2"

	"github.com/nspcc-dev/dbft"
	"github.com/nspcc-dev/dbft/internal/consensus"
)

// htx is a transaction with an arbitrary hash.
type htx struct{ h h256 }

func (t *htx) Hash() h256 { return t.h }

type blockSpec struct {
	AMEV  bool
	TS    uint64
	Index uint32
	Prev  h256
	Nonce uint64
	Tx    []h256 // for AMEV blocks: hashes of Tx64 values (first 8 bytes LE, rest zero)
	CN    [][4]byte
}

func (b blockSpec) clone() blockSpec {
	c := b
	c.Tx = append([]h256{}, b.Tx...)
	c.CN = append([][4]byte{}, b.CN...)
	return c
}

func (b blockSpec) J() map[string]any {
	txs := make([]string, len(b.Tx))
	for i := range b.Tx {
		txs[i] = b.Tx[i].String()
	}
	m := map[string]any{"amev": b.AMEV, "ts_ns": b.TS, "index": b.Index, "prev": b.Prev.String(), "nonce": b.Nonce, "tx": txs}
	if b.AMEV {
		cn := make([]string, len(b.CN))
		for i := range b.CN {
			cn[i] = hx(b.CN[i][:])
		}
		m["cn_data"] = cn
	}
	return m
}

func tx64Hash(v uint64) (h h256) {
	binary.LittleEndian.PutUint64(h[:], v)
	return
}

// build creates a fresh block object (Hash() caches, so never reuse one).
func (b blockSpec) build() dbft.Block[h256] {
	if !b.AMEV {
		blk := consensus.NewBlock(b.TS, b.Index, b.Prev, b.Nonce, append(make([]h256, 0, len(b.Tx)), b.Tx...))
		txs := make([]dbft.Transaction[h256], len(b.Tx))
		for i := range b.Tx {
			txs[i] = &htx{b.Tx[i]}
		}
		blk.SetTransactions(txs)
		return blk
	}
	pre := consensus.NewPreBlock(b.TS, b.Index, b.Prev, b.Nonce, append(make([]h256, 0, len(b.Tx)), b.Tx...))
	txs := make([]dbft.Transaction[h256], len(b.Tx))
	for i := range b.Tx {
		t := consensus.Tx64(binary.LittleEndian.Uint64(b.Tx[i][:8]))
		txs[i] = &t
	}
	pre.SetTransactions(txs)
	cn := make([][]byte, len(b.CN))
	for i := range b.CN {
		cn[i] = append([]byte(nil), b.CN[i][:]...)
	}
	return consensus.NewAMEVBlock(pre, cn, len(cn))
}

func genBlockSpec(rng *rand.Rand, amev bool) blockSpec {
	b := blockSpec{AMEV: amev, TS: genTS(rng), Index: genU32(rng), Prev: randHash(rng), Nonce: genU64(rng)}
	if rng.IntN(30) == 0 {
		b.Prev = h256{}
	}
	if amev {
		n := txSizes[rng.IntN(len(txSizes))]
		b.Tx = make([]h256, n)
		seen := map[uint64]bool{}
		for i := range b.Tx {
			v := rng.Uint64() >> 2 // < 2^62: cannot coincide with the envelope tx near MaxInt64
			for seen[v] {
				v = rng.Uint64() >> 2
			}
			seen[v] = true
			b.Tx[i] = tx64Hash(v)
		}
		m := 1 + rng.IntN(7)
		b.CN = make([][4]byte, m)
		for i := range b.CN {
			fill(rng, b.CN[i][:])
		}
	} else {
		b.Tx = genTxList(rng)
	}
	return b
}

type blockMutation struct {
	field string
	obs   string
	apply func(rng *rand.Rand, b *blockSpec) bool
}

func freshTx64(rng *rand.Rand, l []h256) h256 {
	for {
		h := tx64Hash(rng.Uint64() >> 2)
		ok := true
		for _, x := range l {
			if x == h {
				ok = false
			}
		}
		if ok {
			return h
		}
	}
}

func blockMutations() []blockMutation {
	wrap := func(f func(*rand.Rand, []h256) ([]h256, bool)) func(*rand.Rand, *blockSpec) bool {
		return func(rng *rand.Rand, b *blockSpec) bool {
			l, ok := f(rng, b.Tx)
			if ok {
				b.Tx = l
			}
			return ok
		}
	}
	return []blockMutation{
		{"index", "", func(rng *rand.Rand, b *blockSpec) bool { b.Index = diffU32(rng, b.Index); return true }},
		{"prev_hash_bitflip", "", func(rng *rand.Rand, b *blockSpec) bool { flipBit(rng, b.Prev[:]); return true }},
		{"prev_hash_replace", "", func(rng *rand.Rand, b *blockSpec) bool {
			old := b.Prev
			for b.Prev == old {
				b.Prev = randHash(rng)
			}
			return true
		}},
		{"timestamp_seconds", "", func(rng *rand.Rand, b *blockSpec) bool { b.TS = diffSeconds(rng, b.TS); return true }},
		{"timestamp_subsecond", obsSubSecond, func(rng *rand.Rand, b *blockSpec) bool { b.TS = diffSubSecond(rng, b.TS); return true }},
		{"nonce", "", func(rng *rand.Rand, b *blockSpec) bool { b.Nonce = diffU64(rng, b.Nonce); return true }},
		{"tx_replace", "", func(rng *rand.Rand, b *blockSpec) bool {
			if !b.AMEV {
				return wrap(txReplace)(rng, b)
			}
			if len(b.Tx) == 0 {
				return false
			}
			i := pickPos(rng, len(b.Tx))
			b.Tx[i] = freshTx64(rng, b.Tx)
			return true
		}},
		{"tx_bitflip", "", func(rng *rand.Rand, b *blockSpec) bool {
			if b.AMEV {
				return false
			}
			return wrap(txBitflip)(rng, b)
		}},
		{"tx_swap", "", wrap(txSwap)},
		{"tx_remove", "", wrap(txRemove)},
		{"tx_append", "", func(rng *rand.Rand, b *blockSpec) bool {
			if !b.AMEV {
				return wrap(txAppend)(rng, b)
			}
			b.Tx = append(b.Tx, freshTx64(rng, b.Tx))
			return true
		}},
		{"amev_commit_data", "", func(rng *rand.Rand, b *blockSpec) bool {
			if !b.AMEV || len(b.CN) == 0 {
				return false
			}
			// change one node's data so that the 32-bit sum (and so the envelope tx) changes
			i := rng.IntN(len(b.CN))
			old := binary.BigEndian.Uint32(b.CN[i][:])
			binary.BigEndian.PutUint32(b.CN[i][:], diffU32(rng, old))
			return true
		}},
	}
}

func (e *engine) runBlockChunk(chunk, nSpecs int) {
	rng := newRng(e.r.Seed, "block", chunk)
	muts := blockMutations()
	var evals int64
	fields := map[string]int64{}
	defer func() { e.addFields(fields) }()
	for i := 0; i < nSpecs; i++ {
		amev := (chunk+i)%2 == 1
		kind := "neoBlock"
		if amev {
			kind = "amevBlock"
		}
		s := genBlockSpec(rng, amev)
		sc := "tx=" + sizeClass(len(s.Tx))
		b := s.build()
		h0 := b.Hash()
		h0b := b.Hash()
		hCopy := s.clone().build().Hash()
		evals++
		e.r.Count("block.stability_cases", 1)
		e.r.Distinct("block|" + kind + "|stable|" + sc)
		if h0 == (h256{}) {
			e.viol("block-hash-zero:"+kind, "Hash() of a block with transactions set is the zero hash",
				map[string]any{"chunk": chunk, "case": i, "spec": s.J()})
		}
		if h0 != h0b {
			e.viol("block-hash-unstable:"+kind, "Hash() of one block differs between calls",
				map[string]any{"chunk": chunk, "case": i, "spec": s.J()})
		}
		if h0 != hCopy {
			e.viol("block-hash-not-content-function:"+kind, "two independently built blocks with equal content have different hashes",
				map[string]any{"chunk": chunk, "case": i, "spec": s.J(), "hash": h0.String(), "copy_hash": hCopy.String()})
		}
		var other *blockSpec
		for _, m := range muts {
			ms := s.clone()
			if !m.apply(rng, &ms) {
				continue
			}
			h1 := ms.build().Hash()
			evals++
			if m.obs != "" && notAsserted(m.obs) {
				if h1 == h0 {
					e.r.Count("obs."+m.obs+".hash_unchanged", 1)
				} else {
					e.r.Count("obs."+m.obs+".hash_changed", 1)
				}
				continue
			}
			if other == nil || rng.IntN(3) == 0 {
				o := ms
				other = &o
			}
			e.r.Count("block.mutation_cases", 1)
			fields["block|"+kind+"|"+m.field]++
			e.r.Distinct("block|" + kind + "|" + m.field + "|" + sc)
			if h1 == h0 {
				e.viol("block-hash-unbound:"+kind+":"+m.field,
					fmt.Sprintf("changing %s of a %s does not change Hash()", m.field, kind),
					map[string]any{"chunk": chunk, "case": i, "field": m.field, "spec": s.J(), "mutated": ms.J(), "hash": h0.String()})
			}
		}
		if !amev && i%4 == 1 {
			e.blockObservations(rng, chunk, i, s, h0)
		}
		// signatures: every 4th spec (ECDSA is the expensive part)
		if i%4 == 0 && other != nil {
			evals += e.blockSignChecks(rng, chunk, i, kind, sc, s, *other, h0)
		}
	}
	e.r.Eval(evals)
}

func (e *engine) blockSignChecks(rng *rand.Rand, chunk, i int, kind, sc string, s, other blockSpec, h0 h256) int64 {
	k1 := e.keys[rng.IntN(len(e.keys))]
	k2 := k1
	for k2.id == k1.id {
		k2 = e.keys[rng.IntN(len(e.keys))]
	}
	w := func(extra map[string]any) map[string]any {
		m := map[string]any{"chunk": chunk, "case": i, "spec": s.J(), "key": k1.id, "other_key": k2.id}
		for k, v := range extra {
			m[k] = v
		}
		return m
	}
	var n int64
	// Sign before the first Hash() call
	b1 := s.build()
	if err := b1.Sign(k1.priv); err != nil {
		e.viol("block-sign-error:"+kind, "Sign fails: "+err.Error(), w(nil))
		return 1
	}
	sig1 := append([]byte(nil), b1.Signature()...)
	n++
	e.r.Count("block.sign_cases", 1)
	e.r.Distinct("block|" + kind + "|sign|" + sc)
	if h := b1.Hash(); h != h0 {
		e.viol("block-hash-depends-on-signature:"+kind, "a block signed before its first Hash() call hashes differently from the unsigned equal block",
			w(map[string]any{"unsigned_hash": h0.String(), "signed_hash": h.String()}))
	}
	// Sign after Hash(), with another key: hash keeps its value
	b2 := s.build()
	_ = b2.Hash()
	if err := b2.Sign(k2.priv); err != nil {
		e.viol("block-sign-error:"+kind, "Sign fails: "+err.Error(), w(nil))
		return n
	}
	n++
	if h := b2.Hash(); h != h0 {
		e.viol("block-hash-depends-on-signature:"+kind, "Hash() changes after Sign", w(map[string]any{"unsigned_hash": h0.String(), "signed_hash": h.String()}))
	}
	// a third fresh block hashed only after being signed with k2
	b3 := s.build()
	_ = b3.Sign(k2.priv)
	n++
	if h := b3.Hash(); h != h0 {
		e.viol("block-hash-depends-on-signature:"+kind, "block signed with another key hashes differently", w(map[string]any{"unsigned_hash": h0.String(), "signed_hash": h.String()}))
	}
	// Verify is consistent with Sign
	verify := func(b dbft.Block[h256], pub dbft.PublicKey, sig []byte) (err error, panicked any) {
		defer func() {
			if p := recover(); p != nil {
				panicked = p
			}
		}()
		return b.Verify(pub, sig), nil
	}
	fresh := s.build()
	n++
	e.r.Count("block.verify_cases", 1)
	e.r.Distinct("block|" + kind + "|verify|" + sc)
	if err, p := verify(fresh, k1.pub, sig1); err != nil || p != nil {
		e.viol("block-verify-rejects-own-signature:"+kind, fmt.Sprintf("Verify(signer's key, Sign(...)) on an equal block fails: err=%v panic=%v", err, p), w(map[string]any{"sig": hx(sig1)}))
	}
	n++
	if err, p := verify(fresh, k2.pub, sig1); err == nil || p != nil {
		e.viol("block-verify-accepts-wrong-key:"+kind, fmt.Sprintf("Verify under another key succeeds (panic=%v)", p), w(map[string]any{"sig": hx(sig1)}))
	}
	n++
	if err, p := verify(other.build(), k1.pub, sig1); err == nil || p != nil {
		e.viol("block-verify-accepts-other-block:"+kind, fmt.Sprintf("signature of one block verifies for a block with different content (panic=%v)", p),
			w(map[string]any{"sig": hx(sig1), "other_block": other.J()}))
	}
	// the same on a block object that already carries a local signature (k2's): verification must
	// not depend on what the object has stored
	sig3 := append([]byte(nil), b3.Signature()...)
	e.r.Count("block.verify_on_signed_object_cases", 1)
	n++
	if err, p := verify(b3, k2.pub, sig3); err != nil || p != nil {
		e.viol("block-verify-rejects-own-signature:"+kind, fmt.Sprintf("Verify(signer's key, own stored signature) on the signed object fails: err=%v panic=%v", err, p), w(map[string]any{"sig": hx(sig3)}))
	}
	n++
	if err, p := verify(b3, k1.pub, sig3); err == nil || p != nil {
		e.viol("block-verify-accepts-wrong-key:"+kind, fmt.Sprintf("the object's own stored signature verifies under another validator's key (panic=%v)", p), w(map[string]any{"sig": hx(sig3)}))
	}
	n++
	if err, p := verify(b3, k1.pub, sig1); err != nil || p != nil {
		e.viol("block-verify-rejects-own-signature:"+kind, fmt.Sprintf("another validator's valid signature is rejected by a locally signed object: err=%v panic=%v", err, p), w(map[string]any{"sig": hx(sig1)}))
	}
	n++
	if err, p := verify(b3, k2.pub, sig1); err == nil || p != nil {
		e.viol("block-verify-accepts-wrong-key:"+kind, fmt.Sprintf("Verify under another key succeeds on a locally signed object (panic=%v)", p), w(map[string]any{"sig": hx(sig1)}))
	}
	n++
	bad := append([]byte(nil), sig1...)
	flipBit(rng, bad)
	if err, p := verify(fresh, k1.pub, bad); err == nil || p != nil {
		e.viol("block-verify-accepts-bitflipped-signature:"+kind, fmt.Sprintf("bit-flipped signature verifies (panic=%v)", p), w(map[string]any{"sig": hx(sig1), "flipped": hx(bad)}))
	}
	return n
}

// blockObservations measures two behaviours of neoBlock that are reported, not asserted.
func (e *engine) blockObservations(rng *rand.Rand, chunk, i int, s blockSpec, h0 h256) {
	// (a) Hash() before SetTransactions
	nb := consensus.NewBlock(s.TS, s.Index, s.Prev, s.Nonce, append([]h256(nil), s.Tx...))
	hz := nb.Hash()
	if hz == (h256{}) {
		e.r.Count("obs."+obsBlockZero+".zero", 1)
	} else {
		e.r.Count("obs."+obsBlockZero+".nonzero", 1)
	}
	if !notAsserted(obsBlockZero) && hz != h0 {
		e.viol("block-hash-depends-on-SetTransactions-call", "Hash() differs before and after SetTransactions", map[string]any{"chunk": chunk, "case": i, "spec": s.J()})
	}
	// (b) SetTransactions with a list that differs from the hashes given to NewBlock
	other, _ := txAppend(rng, s.Tx)
	txs := make([]dbft.Transaction[h256], len(other))
	for k := range other {
		txs[k] = &htx{other[k]}
	}
	nb.SetTransactions(txs)
	if nb.Hash() == h0 {
		e.r.Count("obs."+obsBlockSetTx+".hash_unchanged", 1)
		if !notAsserted(obsBlockSetTx) {
			e.viol("block-hash-unbound:neoBlock:SetTransactions", "Hash() ignores the transactions given to SetTransactions", map[string]any{"chunk": chunk, "case": i, "spec": s.J()})
		}
	} else {
		e.r.Count("obs."+obsBlockSetTx+".hash_changed", 1)
	}
}
