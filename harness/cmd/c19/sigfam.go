package main

// Oracle families "sig" (internal/crypto ECDSA + hashes) and "merkle".

import (
	"crypto/ecdsa"
	"crypto/elliptic"
	"fmt"
	"math/big"
	"math/rand/v2"

	"github.com/nspcc-dev/dbft"
	"github.com/nspcc-dev/dbft/internal/crypto"
	"github.com/nspcc-dev/dbft/internal/merkle"
)

type keyPair struct {
	id   string
	priv dbft.PrivateKey
	pub  dbft.PublicKey
}

type rngReader struct{ rng *rand.Rand }

func (r rngReader) Read(p []byte) (int, error) { fill(r.rng, p); return len(p), nil }

// makeKeys builds n key pairs: even ones through the library's Generate, odd
// ones from a seed-derived scalar (fully deterministic).
func makeKeys(seed int64, n int) []keyPair {
	rng := newRng(seed, "keys", 0)
	ks := make([]keyPair, 0, n)
	for i := 0; i < n; i++ {
		if i%2 == 0 {
			priv, pub := crypto.Generate(rngReader{rng})
			if priv != nil && pub != nil {
				ks = append(ks, keyPair{fmt.Sprintf("k%d(Generate)", i), priv, pub})
				continue
			}
		}
		curve := elliptic.P256()
		for {
			var b [32]byte
			fill(rng, b[:])
			d := new(big.Int).SetBytes(b[:])
			if d.Sign() == 0 || d.Cmp(curve.Params().N) >= 0 {
				continue
			}
			x, y := curve.ScalarBaseMult(b[:]) //nolint:staticcheck
			k := &ecdsa.PrivateKey{PublicKey: ecdsa.PublicKey{Curve: curve, X: x, Y: y}, D: d}
			ks = append(ks, keyPair{fmt.Sprintf("k%d(d=%s)", i, hx(b[:])), crypto.NewECDSAPrivateKey(k), crypto.NewECDSAPublicKey(&k.PublicKey)})
			break
		}
	}
	return ks
}

func (e *engine) pubs(n int) []dbft.PublicKey {
	r := make([]dbft.PublicKey, n)
	for i := range r {
		r[i] = e.keys[i%len(e.keys)].pub
	}
	return r
}

func sign(k keyPair, msg []byte) (sig []byte, err error, panicked any) {
	defer func() {
		if p := recover(); p != nil {
			panicked = p
		}
	}()
	sig, err = k.priv.(interface{ Sign([]byte) ([]byte, error) }).Sign(msg)
	return
}

func verify(k keyPair, msg, sig []byte) (err error, panicked any) {
	defer func() {
		if p := recover(); p != nil {
			panicked = p
		}
	}()
	return k.pub.(*crypto.ECDSAPub).Verify(msg, sig), nil
}

var msgLens = []int{0, 1, 2, 31, 32, 33, 55, 56, 63, 64, 65, 119, 120, 127, 128, 300}

func genMsg(rng *rand.Rand) []byte {
	n := msgLens[rng.IntN(len(msgLens))]
	if rng.IntN(3) == 0 {
		n = rng.IntN(400)
	}
	if rng.IntN(200) == 0 {
		n = 1 << 16
	}
	return randBytes(rng, n)
}

func (e *engine) runSigChunk(chunk, n int) {
	rng := newRng(e.r.Seed, "sig", chunk)
	var evals int64
	for i := 0; i < n; i++ {
		k1 := e.keys[rng.IntN(len(e.keys))]
		k2 := k1
		for k2.id == k1.id {
			k2 = e.keys[rng.IntN(len(e.keys))]
		}
		msg := genMsg(rng)
		lc := "len=" + sizeClass(len(msg))
		sig, err, pn := sign(k1, msg)
		wit := func(extra map[string]any) map[string]any {
			m := map[string]any{"chunk": chunk, "case": i, "key": k1.id, "other_key": k2.id, "msg_hex": tail(hx(msg), 600), "msg_len": len(msg), "sig": hx(sig)}
			for k, v := range extra {
				m[k] = v
			}
			return m
		}
		evals++
		e.r.Count("sig.sign_cases", 1)
		if err != nil || pn != nil || len(sig) != 64 {
			e.viol("sign-failure", fmt.Sprintf("Sign fails or returns a signature of %d bytes: err=%v panic=%v", len(sig), err, pn), wit(nil))
			continue
		}
		expectFail := func(sigName, what string, k keyPair, m, s []byte, extra map[string]any) {
			evals++
			e.r.Count("sig.reject_cases", 1)
			if err, pn := verify(k, m, s); err == nil || pn != nil {
				e.viol(sigName, fmt.Sprintf("%s (err=%v panic=%v)", what, err, pn), wit(extra))
			}
		}
		evals++
		e.r.Count("sig.accept_cases", 1)
		e.r.Distinct("sig|own_key|" + lc)
		if err, pn := verify(k1, msg, sig); err != nil || pn != nil {
			e.viol("verify-rejects-own-signature", fmt.Sprintf("Verify(pub_k, msg, Sign(priv_k, msg)) fails: err=%v panic=%v", err, pn), wit(nil))
		}
		e.r.Distinct("sig|other_key|" + lc)
		expectFail("verify-accepts-wrong-key", "signature verifies under another key", k2, msg, sig, nil)
		// other messages
		if len(msg) > 0 {
			m2 := append([]byte(nil), msg...)
			flipBit(rng, m2)
			e.r.Distinct("sig|msg_bitflip|" + lc)
			expectFail("verify-accepts-other-message", "signature verifies for a message with one bit flipped", k1, m2, sig, map[string]any{"other_msg_hex": tail(hx(m2), 600)})
			e.r.Distinct("sig|msg_truncated|" + lc)
			expectFail("verify-accepts-other-message", "signature verifies for the truncated message", k1, msg[:len(msg)-1], sig, nil)
		}
		e.r.Distinct("sig|msg_extended|" + lc)
		expectFail("verify-accepts-other-message", "signature verifies for the message with a byte appended", k1, append(append([]byte(nil), msg...), 0), sig, nil)
		// single-bit flips of the signature
		flips := 8
		if i%16 == 0 {
			flips = 512
		}
		for f := 0; f < flips; f++ {
			bit := f
			if flips != 512 {
				bit = rng.IntN(512)
			}
			bad := append([]byte(nil), sig...)
			bad[bit/8] ^= 1 << (bit % 8)
			half := "r"
			if bit >= 256 {
				half = "s"
			}
			e.r.Distinct(fmt.Sprintf("sig|sig_bitflip|%s,byte=%d", half, bit/8))
			expectFail("verify-accepts-bitflipped-signature:"+half, fmt.Sprintf("signature with bit %d (in %s) flipped verifies", bit, half), k1, msg, bad, map[string]any{"flipped_bit": bit, "bad_sig": hx(bad)})
		}
		e.r.Distinct("sig|sig_zero|-")
		expectFail("verify-accepts-zero-signature", "all-zero signature verifies", k1, msg, make([]byte, 64), nil)
		sw := append(append([]byte(nil), sig[32:]...), sig[:32]...)
		e.r.Distinct("sig|sig_swapped|-")
		expectFail("verify-accepts-swapped-signature", "signature with r and s swapped verifies", k1, msg, sw, nil)
		// a second (randomized) signature of the same message also verifies
		if i%8 == 0 {
			sigB, _, _ := sign(k1, msg)
			evals++
			e.r.Count("sig.accept_cases", 1)
			if err, pn := verify(k1, msg, sigB); err != nil || pn != nil {
				e.viol("verify-rejects-own-signature", "second signature of the same message does not verify", wit(map[string]any{"sig2": hx(sigB)}))
			}
		}
		// observations
		if i%32 == 0 {
			nn := elliptic.P256().Params().N
			s := new(big.Int).SetBytes(sig[32:])
			tw := append([]byte(nil), sig...)
			new(big.Int).Sub(nn, s).FillBytes(tw[32:])
			if err, pn := verify(k1, msg, tw); err == nil && pn == nil {
				e.r.Count("obs."+obsSigMalleable+".accepted", 1)
			} else {
				e.r.Count("obs."+obsSigMalleable+".rejected", 1)
			}
			short := make([]byte, 63)
			copy(short, sig)
			if _, pn := verify(k1, msg, short); pn != nil {
				e.r.Count("obs."+obsSigShortPanics+".panicked", 1)
			} else {
				e.r.Count("obs."+obsSigShortPanics+".clean_error", 1)
			}
		}
		if i == 0 && chunk == 0 {
			e.sample("sig", func() any {
				return map[string]any{"family": "sig", "key": k1.id, "msg_hex": tail(hx(msg), 200), "sig": hx(sig),
					"verdict": "verifies under the signer's key only; every checked bit flip, other key and other message rejected"}
			})
		}
	}
	e.r.Eval(evals)
}

func (e *engine) runHashFnChunk(chunk, n int) {
	rng := newRng(e.r.Seed, "hashfn", chunk)
	var evals int64
	for i := 0; i < n; i++ {
		msg := genMsg(rng)
		if len(msg) > 4096 {
			msg = msg[:4096]
		}
		lc := "len=" + sizeClass(len(msg))
		h256a, h160a := crypto.Hash256(msg), crypto.Hash160(msg)
		cp := append([]byte(nil), msg...)
		evals++
		e.r.Count("hashfn.cases", 1)
		e.r.Distinct("hashfn|deterministic|" + lc)
		if crypto.Hash256(cp) != h256a || crypto.Hash160(cp) != h160a || crypto.Hash256(msg) != h256a {
			e.viol("hashfn-nondeterministic", "Hash256/Hash160 give different results for equal input", map[string]any{"chunk": chunk, "case": i, "msg_hex": hx(msg)})
		}
		variants := [][]byte{append(append([]byte(nil), msg...), 0)}
		if len(msg) > 0 {
			variants = append(variants, msg[:len(msg)-1])
			flips := 16
			if len(msg) <= 8 {
				flips = len(msg) * 8
			}
			for f := 0; f < flips; f++ {
				m2 := append([]byte(nil), msg...)
				if len(msg) <= 8 {
					m2[f/8] ^= 1 << (f % 8)
				} else {
					flipBit(rng, m2)
				}
				variants = append(variants, m2)
			}
		}
		for vi, v := range variants {
			evals++
			e.r.Count("hashfn.cases", 1)
			cls := "bitflip"
			if vi == 0 {
				cls = "extended"
			} else if vi == 1 {
				cls = "truncated"
			}
			e.r.Distinct("hashfn|" + cls + "|" + lc)
			if crypto.Hash256(v) == h256a {
				e.viol("hash256-insensitive:"+cls, "Hash256 does not change with the input", map[string]any{"chunk": chunk, "case": i, "msg_hex": hx(msg), "variant_hex": hx(v)})
			}
			if crypto.Hash160(v) == h160a {
				e.viol("hash160-insensitive:"+cls, "Hash160 does not change with the input", map[string]any{"chunk": chunk, "case": i, "msg_hex": hx(msg), "variant_hex": hx(v)})
			}
		}
	}
	e.r.Eval(evals)
}

// ---------------------------------------------------------------- Merkle

func merkleRoot(l []h256) (root h256, panicked any) {
	defer func() {
		if p := recover(); p != nil {
			panicked = p
		}
	}()
	in := append([]h256(nil), l...)
	return merkle.NewMerkleTree(in...).Root().Hash, nil
}

// runMerkleChunk: sizes lo..hi-1, rounds lists per size.
func (e *engine) runMerkleChunk(chunk, lo, hi, rounds int) {
	rng := newRng(e.r.Seed, "merkle", chunk)
	var evals int64
	type mut struct {
		name string
		f    func(*rand.Rand, []h256) ([]h256, bool)
	}
	muts := []mut{{"replace", txReplace}, {"bitflip", txBitflip}, {"swap", txSwap}, {"remove", txRemove}, {"append", txAppend}}
	for n := lo; n < hi; n++ {
		sc := "n=" + sizeClass(n)
		if n%2 == 1 {
			sc += ",odd"
		} else {
			sc += ",even"
		}
		for r := 0; r < rounds; r++ {
			l := make([]h256, n)
			for i := range l {
				l[i] = randHash(rng)
			}
			wit := func(extra map[string]any) map[string]any {
				m := map[string]any{"chunk": chunk, "size": n, "round": r, "leaves": hashList(l)}
				for k, v := range extra {
					m[k] = v
				}
				return m
			}
			root, pn := merkleRoot(l)
			root2, _ := merkleRoot(l)
			evals++
			e.r.Count("merkle.cases", 1)
			e.r.Distinct("merkle|deterministic|" + sc)
			if pn != nil {
				e.viol("merkle-panic", fmt.Sprintf("NewMerkleTree panics: %v", pn), wit(nil))
				continue
			}
			if root != root2 {
				e.viol("merkle-nondeterministic", "two trees over the same leaves have different roots", wit(nil))
			}
			for _, m := range muts {
				// every boundary position explicitly for replace: first, last
				reps := 1
				if m.name == "replace" || m.name == "remove" {
					reps = 3
				}
				for k := 0; k < reps; k++ {
					var l2 []h256
					var ok bool
					switch {
					case m.name == "replace" && k < 2:
						l2 = append([]h256(nil), l...)
						pos := 0
						if k == 1 {
							pos = n - 1
						}
						l2[pos] = randHash(rng)
						ok = true
					case m.name == "remove" && k < 2:
						pos := 0
						if k == 1 {
							pos = n - 1
						}
						l2 = append(append([]h256(nil), l[:pos]...), l[pos+1:]...)
						ok = true
					default:
						l2, ok = m.f(rng, l)
					}
					if !ok || len(l2) == 0 {
						continue
					}
					r2, pn := merkleRoot(l2)
					evals++
					e.r.Count("merkle.cases", 1)
					e.r.Distinct("merkle|" + m.name + "|" + sc)
					if pn != nil {
						e.viol("merkle-panic", fmt.Sprintf("NewMerkleTree panics: %v", pn), wit(map[string]any{"mutated": hashList(l2)}))
					} else if r2 == root {
						e.viol("merkle-root-unbound:"+m.name, fmt.Sprintf("Merkle root does not change on leaf %s (size %d)", m.name, n), wit(map[string]any{"mutated": hashList(l2), "root": root.String()}))
					}
				}
			}
			// observation: duplicate-tail collision
			if n%2 == 1 {
				l2 := append(append([]h256(nil), l...), l[n-1])
				r2, _ := merkleRoot(l2)
				if r2 == root {
					e.r.Count("obs."+obsMerkleDupTail+".same_root", 1)
					if !notAsserted(obsMerkleDupTail) {
						e.viol("merkle-root-unbound:append_duplicate_of_last", "appending a copy of the last leaf to an odd list keeps the root", wit(nil))
					}
				} else {
					e.r.Count("obs."+obsMerkleDupTail+".different_root", 1)
				}
			}
			if n == 5 && r == 0 && chunk == 0 {
				e.sample("merkle", func() any {
					return map[string]any{"family": "merkle", "leaves": hashList(l), "root": root.String(), "verdict": "root changed under replace/bitflip/swap/remove/append"}
				})
			}
		}
	}
	e.r.Eval(evals)
}
