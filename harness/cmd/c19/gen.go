package main

// Generators: a payload is described by a plain-data spec (the oracle's view of
// "content"); the real library objects are built from a spec through the
// exported constructors only, so that two independent builds of the same spec
// and single-field mutations of a spec can be compared on the real Hash().

import (
	"encoding/binary"
	"encoding/hex"
	"hash/fnv"
	"math/rand/v2"

	"github.com/nspcc-dev/dbft"
	"github.com/nspcc-dev/dbft/internal/consensus"
	"github.com/nspcc-dev/dbft/internal/crypto"
)

type h256 = crypto.Uint256

const (
	kPrepReq  = "PrepareRequest"
	kPrepResp = "PrepareResponse"
	kCV       = "ChangeView"
	kCommit   = "Commit"
	kAMEVCom  = "AMEVCommit"
	kPreCom   = "PreCommit"
	kRecReq   = "RecoveryRequest"
	kRecMsg   = "RecoveryMessage"
)

var allKinds = []string{kPrepReq, kPrepResp, kCV, kCommit, kAMEVCom, kPreCom, kRecReq, kRecMsg}

// kinds that message.DecodeBinary of the reference implementation can decode.
var decodableKinds = []string{kPrepReq, kPrepResp, kCV, kCommit, kRecReq, kRecMsg}

var knownTypes = []dbft.MessageType{
	dbft.ChangeViewType, dbft.PrepareRequestType, dbft.PrepareResponseType, dbft.PreCommitType,
	dbft.CommitType, dbft.RecoveryRequestType, dbft.RecoveryMessageType,
}

func naturalType(kind string) dbft.MessageType {
	switch kind {
	case kPrepReq:
		return dbft.PrepareRequestType
	case kPrepResp:
		return dbft.PrepareResponseType
	case kCV:
		return dbft.ChangeViewType
	case kCommit, kAMEVCom:
		return dbft.CommitType
	case kPreCom:
		return dbft.PreCommitType
	case kRecReq:
		return dbft.RecoveryRequestType
	default:
		return dbft.RecoveryMessageType
	}
}

const nsPerSec = 1000000000

// spec is the content of one consensus payload.
type spec struct {
	Kind   string
	Type   dbft.MessageType
	Height uint32
	View   byte
	Index  uint16

	TS       uint64 // nanoseconds (PrepareRequest, ChangeView, RecoveryRequest)
	Nonce    uint64
	Tx       []h256
	PrepHash h256     // PrepareResponse
	NewView  byte     // ChangeView
	Reason   byte     // ChangeView (ignored by the reference constructor)
	Sig      [64]byte // Commit / AMEVCommit
	PreData  [4]byte  // PreCommit

	// RecoveryMessage
	RecPrepHash *h256  // argument of NewRecoveryMessage
	Items       []spec // payloads fed to AddPayload, in order
}

func (s spec) clone() spec {
	c := s
	c.Tx = append([]h256(nil), s.Tx...)
	if s.Tx != nil && c.Tx == nil {
		c.Tx = []h256{}
	}
	if s.RecPrepHash != nil {
		h := *s.RecPrepHash
		c.RecPrepHash = &h
	}
	if s.Items != nil {
		c.Items = make([]spec, len(s.Items))
		for i := range s.Items {
			c.Items[i] = s.Items[i].clone()
		}
	}
	return c
}

// body builds the consensus message of the spec with the exported constructors.
func (s spec) body() any {
	switch s.Kind {
	case kPrepReq:
		return consensus.NewPrepareRequest(s.TS, s.Nonce, append(make([]h256, 0, len(s.Tx)), s.Tx...))
	case kPrepResp:
		return consensus.NewPrepareResponse(s.PrepHash)
	case kCV:
		return consensus.NewChangeView(s.NewView, dbft.ChangeViewReason(s.Reason), s.TS)
	case kCommit:
		return consensus.NewCommit(append([]byte(nil), s.Sig[:]...))
	case kAMEVCom:
		return consensus.NewAMEVCommit(append([]byte(nil), s.Sig[:]...))
	case kPreCom:
		return consensus.NewPreCommit(append([]byte(nil), s.PreData[:]...))
	case kRecReq:
		return consensus.NewRecoveryRequest(s.TS)
	case kRecMsg:
		var ph *h256
		if s.RecPrepHash != nil {
			h := *s.RecPrepHash
			ph = &h
		}
		rm := consensus.NewRecoveryMessage(ph)
		for i := range s.Items {
			rm.AddPayload(s.Items[i].build())
		}
		return rm
	}
	panic("c19: unknown kind " + s.Kind)
}

func (s spec) build() dbft.ConsensusPayload[h256] {
	return consensus.NewConsensusPayload(s.Type, s.Height, s.Index, s.View, s.body())
}

func hx(b []byte) string { return hex.EncodeToString(b) }

// J renders the spec for witnesses / samples.
func (s spec) J() map[string]any {
	m := map[string]any{
		"kind": s.Kind, "type": byte(s.Type), "height": s.Height, "view": s.View, "index": s.Index,
	}
	switch s.Kind {
	case kPrepReq:
		m["ts_ns"] = s.TS
		m["nonce"] = s.Nonce
		txs := make([]string, len(s.Tx))
		for i := range s.Tx {
			txs[i] = s.Tx[i].String()
		}
		m["tx"] = txs
	case kPrepResp:
		m["prep_hash"] = s.PrepHash.String()
	case kCV:
		m["ts_ns"] = s.TS
		m["new_view"] = s.NewView
		m["reason"] = s.Reason
	case kCommit, kAMEVCom:
		m["sig"] = hx(s.Sig[:])
	case kPreCom:
		m["data"] = hx(s.PreData[:])
	case kRecReq:
		m["ts_ns"] = s.TS
	case kRecMsg:
		if s.RecPrepHash != nil {
			m["rec_prep_hash"] = s.RecPrepHash.String()
		}
		its := make([]any, len(s.Items))
		for i := range s.Items {
			its[i] = s.Items[i].J()
		}
		m["items"] = its
	}
	return m
}

// ---------------------------------------------------------------- PRNG

func newRng(seed int64, family string, chunk int) *rand.Rand {
	f := fnv.New64a()
	_, _ = f.Write([]byte(family))
	return rand.New(rand.NewPCG(uint64(seed)^0xc19c19c19c19, f.Sum64()+uint64(chunk)*0x9e3779b97f4a7c15))
}

func fill(rng *rand.Rand, b []byte) {
	i := 0
	for ; i+8 <= len(b); i += 8 {
		binary.LittleEndian.PutUint64(b[i:], rng.Uint64())
	}
	if i < len(b) {
		var t [8]byte
		binary.LittleEndian.PutUint64(t[:], rng.Uint64())
		copy(b[i:], t[:])
	}
}

func randHash(rng *rand.Rand) (h h256) {
	fill(rng, h[:])
	return
}

var boundaryU32 = []uint32{0, 1, 2, 0x7f, 0x80, 0xff, 0x100, 0xffff, 0x10000, 0x7fffffff, 0x80000000, 0xfffffffe, 0xffffffff}
var boundaryU16 = []uint16{0, 1, 2, 6, 7, 0x7f, 0x80, 0xff, 0x100, 0x7fff, 0x8000, 0xfffe, 0xffff}
var boundaryU8 = []byte{0, 1, 2, 0x7f, 0x80, 0xfe, 0xff}
var boundaryU64 = []uint64{0, 1, 0xff, 0x100, 0xffffffff, 0x100000000, 0x7fffffffffffffff, 0x8000000000000000, 0xffffffffffffffff}

func genU32(rng *rand.Rand) uint32 {
	switch rng.IntN(4) {
	case 0:
		return boundaryU32[rng.IntN(len(boundaryU32))]
	case 1:
		return uint32(rng.IntN(1000))
	}
	return rng.Uint32()
}
func genU16(rng *rand.Rand) uint16 {
	switch rng.IntN(4) {
	case 0:
		return boundaryU16[rng.IntN(len(boundaryU16))]
	case 1:
		return uint16(rng.IntN(21))
	}
	return uint16(rng.Uint32())
}
func genU8(rng *rand.Rand) byte {
	switch rng.IntN(4) {
	case 0:
		return boundaryU8[rng.IntN(len(boundaryU8))]
	case 1:
		return byte(rng.IntN(6))
	}
	return byte(rng.Uint32())
}
func genU64(rng *rand.Rand) uint64 {
	if rng.IntN(4) == 0 {
		return boundaryU64[rng.IntN(len(boundaryU64))]
	}
	return rng.Uint64()
}

// genTS returns a nanosecond timestamp whose whole seconds fit uint32 (the
// wire granularity/range of the reference payloads and blocks).
func genTS(rng *rand.Rand) uint64 {
	sec := uint64(genU32(rng))
	var sub uint64
	switch rng.IntN(3) {
	case 0:
		sub = 0
	case 1:
		sub = nsPerSec - 1
	default:
		sub = rng.Uint64N(nsPerSec)
	}
	return sec*nsPerSec + sub
}

var txSizes = []int{0, 1, 2, 3, 4, 5, 7, 8, 9, 16, 17, 33}

func genTxList(rng *rand.Rand) []h256 {
	n := txSizes[rng.IntN(len(txSizes))]
	if rng.IntN(40) == 0 {
		n = 64 + rng.IntN(200)
	}
	l := make([]h256, n)
	for i := range l {
		l[i] = randHash(rng)
	}
	return l
}

func sizeClass(n int) string {
	switch {
	case n == 0:
		return "0"
	case n == 1:
		return "1"
	case n == 2:
		return "2"
	case n <= 4:
		return "3-4"
	case n <= 8:
		return "5-8"
	case n <= 16:
		return "9-16"
	case n <= 64:
		return "17-64"
	}
	return "65+"
}

func genSimple(rng *rand.Rand, kind string) spec {
	s := spec{Kind: kind, Type: naturalType(kind), Height: genU32(rng), View: genU8(rng), Index: genU16(rng)}
	switch kind {
	case kPrepReq:
		s.TS, s.Nonce, s.Tx = genTS(rng), genU64(rng), genTxList(rng)
	case kPrepResp:
		s.PrepHash = randHash(rng)
		if rng.IntN(50) == 0 {
			s.PrepHash = h256{}
		}
	case kCV:
		s.TS = genTS(rng)
		s.NewView = s.View + 1
		s.Reason = byte(rng.IntN(6))
	case kCommit, kAMEVCom:
		fill(rng, s.Sig[:])
		if rng.IntN(50) == 0 {
			s.Sig = [64]byte{}
		}
	case kPreCom:
		fill(rng, s.PreData[:])
	case kRecReq:
		s.TS = genTS(rng)
	}
	return s
}

// genRecovery builds a recovery-message spec whose items share its height and
// (mostly) its view, as a node would pack them.
func genRecovery(rng *rand.Rand, withPreCommits bool) spec {
	s := spec{Kind: kRecMsg, Type: dbft.RecoveryMessageType, Height: genU32(rng), View: genU8(rng), Index: genU16(rng)}
	n := []int{1, 4, 7, 10, 21}[rng.IntN(5)]
	perm := rng.Perm(n)
	mode := rng.IntN(4) // 0: embedded request, 1: explicit prep hash, 2: neither, 3: embedded request
	pos := 0
	next := func() (uint16, bool) {
		if pos >= len(perm) {
			return 0, false
		}
		pos++
		return uint16(perm[pos-1]), true
	}
	item := func(kind string, idx uint16) spec {
		it := genSimple(rng, kind)
		it.Height, it.View, it.Index = s.Height, s.View, idx
		if kind == kCV {
			it.NewView = it.View + 1
		}
		return it
	}
	if mode == 0 || mode == 3 {
		if idx, ok := next(); ok {
			s.Items = append(s.Items, item(kPrepReq, idx))
		}
	} else if mode == 1 {
		h := randHash(rng)
		s.RecPrepHash = &h
	}
	kinds := []string{kPrepResp, kCommit, kCV}
	if withPreCommits {
		kinds = append(kinds, kPreCom)
	}
	for _, k := range kinds {
		cnt := rng.IntN(n + 1)
		if rng.IntN(3) == 0 {
			cnt = 0
		}
		// each kind draws its own indices (a validator may have sent several kinds)
		p2 := rng.Perm(n)
		for i := 0; i < cnt; i++ {
			it := item(k, uint16(p2[i]))
			if k == kPrepResp && len(s.Items) > 0 && s.Items[0].Kind == kPrepReq {
				it.PrepHash = s.Items[0].build().Hash()
			} else if k == kPrepResp && s.RecPrepHash != nil {
				it.PrepHash = *s.RecPrepHash
			}
			if k == kCV && rng.IntN(2) == 0 {
				it.View = genU8(rng)
				it.NewView = it.View + 1
			}
			s.Items = append(s.Items, it)
		}
	}
	return s
}

func genSpec(rng *rand.Rand, kind string) spec {
	if kind == kRecMsg {
		return genRecovery(rng, true)
	}
	return genSimple(rng, kind)
}
