# sourced by every script: Go environment that works offline in this sandbox
export VERIF_DIR="${VERIF_DIR:-$(cd "$(dirname "${BASH_SOURCE[0]}")/.." && pwd)}"
export GOFLAGS=-mod=mod GOPROXY=off GONOSUMDB='*' GONOSUMCHECK=1 GOFLAGS=-mod=mod
unset GOSUMDB
GO124=/root/go/pkg/mod/golang.org/toolchain@v0.0.1-go1.24.0.linux-amd64/bin/go
if [ -x "$GO124" ]; then
  export GOTOOLCHAIN=local
  export GO="$GO124"
  export PATH="$(dirname "$GO124"):$PATH"
else
  unset GOTOOLCHAIN
  export GO=go
fi
export DBFT_TREE="${DBFT_TREE:-/repo}"
export VERIF_WORK="${VERIF_WORK:-/var/tmp/verif-work}"
mkdir -p "$VERIF_WORK/bin"
