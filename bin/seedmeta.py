#!/usr/bin/env python3
"""Writes seeded/<id>/meta.json for every confirmed seeded change (from confirm.txt and NOTES.md)."""
import json, os, re, glob
V = os.path.dirname(os.path.dirname(os.path.abspath(__file__)))
for d in sorted(glob.glob(os.path.join(V, 'seeded', 'C[0-9][0-9]-[0-9]')) + glob.glob(os.path.join(V, 'seeded', 'C[0-9][0-9]-r[23456]-[0-9]'))):
    name = os.path.basename(d)
    prop, n = name.split('-')[0], name.split('-')[-1]
    ct = os.path.join(d, 'confirm.txt')
    if not os.path.exists(ct):
        continue
    conf = open(ct).read()
    caught = re.findall(r'(C\d\d):rc=1\[([^\]]*)\]', conf)
    missed = re.findall(r'(C\d\d):rc=0\[', conf)
    incon = re.findall(r'(C\d\d):rc=2\[', conf)
    notes = ''
    np = os.path.join(d, 'NOTES.md')
    if os.path.exists(np):
        notes = open(np).read()
    # the part of NOTES.md about change n
    m = re.split(r'\n(?=#+ .*(?:[Cc]hange|[Pp]atch|[Dd]efect)\s*#?\s*\d)', notes)
    part = ''
    for sec in m:
        if re.search(r'(?:[Cc]hange|[Pp]atch|[Dd]efect)\s*#?\s*%s\b' % n, sec.split('\n', 1)[0]):
            part = sec
            break
    if not part:
        part = notes
    old = {}
    mp = os.path.join(d, 'meta.json')
    if os.path.exists(mp):
        try:
            old = json.load(open(mp))
        except Exception:
            old = {}
    if old.get("manual"):
        print(name, "(manual meta kept)")
        continue
    meta = {
        "property": prop,
        "source": "independent sub-agent given only the property text and a scratch worktree (/tmp/seed%s-%s)" % ("2" if "-r2-" in name else "3" if "-r3-" in name else "4" if "-r4-" in name else "5" if "-r5-" in name else "6" if "-r6-" in name else "", prop),
        "needs_to_manifest": old.get("needs_to_manifest") or ' '.join(part.split())[:1500],
        "confirmed": conf.strip().split('\n')[0],
        "caught_by": ["%s quick (%s)" % (c, ' '.join(s.split())) for c, s in caught],
        "not_caught_by": missed,
        "inconclusive": incon,
        "ran": "bin/seedconfirm %s %s …  (applies patch.diff to a scratch copy of /repo, runs the pinned suite with the change, the demonstration with and without it, and the listed quick checks with DBFT_TREE pointing at the copy)" % (prop, n),
    }
    if old.get("strengthened"):
        meta["strengthened"] = old["strengthened"]
    json.dump(meta, open(mp, 'w'), indent=1)
    print(name, "caught:", [c for c, _ in caught], "missed:", missed, "inconclusive:", incon)
