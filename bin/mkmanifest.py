#!/usr/bin/env python3
"""Regenerates /verif/MANIFEST.json from the table below (single source of truth)."""
import json, os, subprocess
V = os.path.dirname(os.path.dirname(os.path.abspath(__file__)))
props = [json.loads(l)['id'] for l in open(os.path.join(V, 'properties.jsonl'))]
try:
    commits = subprocess.check_output(['git', '-C', '/repo', 'log', '--format=%h %s', '--grep=^verif:'], text=True).strip().splitlines()
except Exception:
    commits = []

VN = "real dbft instances in a deterministic virtual-time cluster (harness/vnet) under a seeded hostile scheduler; "
checks = {
 'C01': dict(engine='vnet', technique='runtime monitoring: offline agreement checker over ProcessBlock events of honest nodes in hostile virtual-time cluster runs (Byzantine/equivocating/replaying adversaries, loss, duplication, early timeouts)',
   text=VN+'oracle compares the blocks accepted by all honest never-restarted nodes per height; forks are attributed through re-validated acceptance certificates. Held on the runs executed, nothing more; the known fork (early unverified commits) is reported as KNOWN-FINDING.',
   note='assumes an authenticated transport (adversaries cannot forge honest payloads/signatures; harness MAC signatures), <=F faulty validators, harness payload/block implementations; explores N<=10 (13 and 16 in a share of the thorough runs), 2-4 (up to 8) heights; faults: Byzantine validators, hostile scheduling, amnesia restarts of up to F validators', ref='4.1, 5.1'),
 'C02': dict(engine='vnet', technique='runtime monitoring: online certificate re-validation inside every ProcessBlock/ProcessPreBlock callback (M verifying current-view (pre)commits, tip extension, block == proposal)',
   text=VN+'at every acceptance the monitor re-verifies every counted commit/pre-commit signature against exactly the handed-over block, checks index/prev hash against the ledger and rebuilds the block from the stored proposal.',
   note='same assumptions as C01; known finding early-unverified-commit (commits that reach a backup before the proposal, anti-MEV off) is listed in KNOWN_FINDINGS.txt; four related defects were repaired', ref='4.2, 5.1, 5.14, 5.16, 5.1b'),
 'C03': dict(engine='vnet', technique='runtime monitoring: offline checker over each honest node\'s Broadcast history (equivocation, commit lock, recovery-message retransmissions, view monotonicity)',
   text=VN+'oracle over the complete outgoing message history and view entries of every honest node.', note='every incarnation of a restarted node is judged on its own (what it said before the restart is forgotten, what comes back to it from the peers counts as said); authenticated transport; byz-flips profile (watch-only flag flipping); known finding: the commit lock is not held while the watch-only flag is set', ref='4.3, 5.19'),
 'C04': dict(engine='vnet', technique='runtime monitoring: online precondition evaluation at every PrepareResponse/Commit/PreCommit send and every view entry against the node\'s exported tables',
   text=VN+'preconditions (designated primary, all transactions held, verification accepted that block, M preparations naming the proposal, M change views) are evaluated on the live Context at the instant of the send / view entry.', note='authenticated transport; <=F faulty', ref='4.4'),
 'C07': dict(engine='vnet', technique='runtime monitoring: online phase-order automaton per node and height (pre-commit -> pre-block -> commit -> block) over callback events',
   text=VN+'automaton over Broadcast/ProcessPreBlock/NewBlockFromContext/Sign/ProcessBlock events with anti-MEV off, on from genesis and switching on mid-run, with failing callbacks.', note='harness pre-block/block types model verifiable decryption shares', ref='4.7'),
 'C08': dict(engine='vnet', technique='runtime monitoring: offline checker over fault-free synchronous virtual-time runs with randomly permuted/duplicated deliveries (all decide every height in view 0, no ChangeView/RecoveryRequest)',
   text=VN+'all validators honest, every due message delivered before a timer may expire, random order and duplicates inside each round, early traffic via slow block persistence; bounded restatement, see DESIGN.', note='premise limits: latency <= T/50, Reset delay inside the timer slack; genesis-height zero timers excluded for runs with latency (DESIGN 5.10)', ref='4.8'),
 'C10': dict(engine='vnet', technique='runtime monitoring: online timer-armed assertion after every API return on the injected virtual timer',
   text=VN+'after each Start/Reset/OnReceive/OnTimeout/OnTransaction/OnNewTransaction return the injected timer of an undecided validator must be pending for exactly (BlockIndex, ViewNumber) with a non-negative duration; matching timeouts must re-arm.', note='views whose shift overflows (>~28) are not reached; hostile profiles plus the watch profile; known finding: no timer after the watch-only flag is switched off in the middle of an epoch', ref='4.10, 5.19'),
 'C14': dict(engine='vnet', technique='runtime monitoring: twin-run trace comparison of one deterministic schedule under shifted virtual epochs and repeated wall-clock instants',
   text='the same scripted FIFO schedule is executed with epoch E, E+delta (a multiple of the drawn timestamp increment) and E again: timer arguments and payload streams (timestamps minus epoch) must be identical; a fourth execution under an offset off the increment grid must agree in everything but timestamps; fresh chains, a fixed ledger timestamp and scripted view-jump twins are part of the case list.', note='nonces/hashes/signatures excluded (crypto/rand nonce); runs that used the map-ordered cache replay are skipped', ref='4.14, 5.4'),
 'C16': dict(engine='vnet', technique='runtime monitoring: offline timing checker over virtual-time-stamped proposals in fault-free synchronous runs with MaxTimePerBlock',
   text=VN+'proposal gaps >= min, empty proposals >= max after the previous one, notified primary proposes inside the OnNewTransaction call, no idle view change, subscription only with the extension.', note='tolerance 2 x one-way latency; a timeout while the proposal is in flight to that node is outside the premise', ref='4.16'),
 'C05': dict(engine='vnet', technique='runtime monitoring: online quiescence monitor between ProcessBlock and Reset plus state audits inside and after every Reset/Start (tables, validator list, own index, cache through the verif hook)',
   text=VN+'multi-height runs (also chains of 120-320 heights on one instance) with validator sets changing size/membership/own index, block times changing per height, height skips by multi-block ledger sync, leftover and early traffic; at-most-once decision, whole-state fingerprint unchanged while decided, fresh state right after Context.reset, nothing of lower heights in tables or cache at return; every cacheable future payload is kept, also while decided; scripted late events after a decision the node did not vote for.', note='needs the verif hooks VerifCache/VerifFlags; authenticated transport', ref='4.5, 5.6'),
 'C06': dict(engine='c06', technique='runtime monitoring with an exhaustive workload: N/F/M/GetPrimaryIndex of the real Context evaluated for every N in 1..65535 x every view 0..255 x listed heights against integer arithmetic',
   text='exhaustive enumeration of N x view at the listed heights (incl. 32-bit boundaries); per-N height windows for N<=512; 1% sample and N<=64 re-initialised through real Reset; one long-lived instance per worker is driven through random validator-count changes; a library panic for any N is a violation.', note='BlockIndex is moved directly between heights for most N', ref='4.6'),
 'C09': dict(engine='vnet', technique='runtime monitoring: bounded-progress checker in virtual time over runs with silent validators, healed partitions, amnesia restarts and arbitrary loss-free asynchronous prefixes (then GST)',
   text=VN+'liveness restated as bounded progress: after the last fault event every live validator gains each height within 16*2^(v0+s)*T of virtual time (T = block time, or the maximum block time where dynamic block time is configured; v0 counts requested views; +F in the exponent after an asynchronous prefix); views <= s for silent-from-start runs (one recorded exception); agreement checked on the same runs.', note='bounded restatement of an unbounded eventually; synchronous delivery after GST; three recorded findings (KNOWN_FINDINGS.txt): amnesiac primary proposing twice, the dBFT 2.0 commit-split liveness lock, a primary waiting a backup timeout after learning of its view from a recovery message', ref='4.9, 5.12, 5.20, 5.21'),
 'C11': dict(engine='vnet', technique='runtime monitoring: whole-state fingerprint comparison around injected inadmissible/duplicate inputs in reachable states, plus an API-sequence fuzzer in child processes as panic trap',
   text=VN+'probes of every inadmissible class are injected into states reached by real runs and judged by fingerprint/timer/broadcast comparison; 40k (quick) generated API sequences with arbitrary payloads and callback results run in child processes that record the case before executing it.', note='fingerprint covers unexported state through the verif hooks; one recorded finding (latent change-view quorum)', ref='4.11, 5.11'),
 'C12': dict(engine='vnet', technique='runtime monitoring: online obligation tracker RequestTx -> OnTransaction -> PrepareResponse/ChangeView',
   text=VN+'obligations start at RequestTx and must be discharged no later than the OnTransaction call that supplies the last requested transaction, including view changes inside that call (directed scenario + seeded variations).', note='premise evaluated at call start (backup, proposal stored, not view-changing, not answered)', ref='4.12, 5.5, 5.15'),
 'C13': dict(engine='vnet', technique='runtime monitoring: online silence monitor on watch-only nodes (Broadcast/Sign/SetData) plus twin-run comparison watch-only vs silent validator',
   text=VN+'watch-only validator at every list position and observers outside the list, heights chosen so that it is primary at Start/Reset/after view changes; the other validators must behave identically next to a silent validator (FIFO twin runs).', note='twin comparison skips runs that used the map-ordered cache replay', ref='4.13, 5.2'),
 'C15': dict(engine='vnet', technique='runtime monitoring: online proposal well-formedness oracle at NewPrepareRequest/Broadcast/API return/NewBlockFromContext on real primaries',
   text='generated previous timestamps (zero, aligned, unaligned, near or hours ahead of the clock, upper half of uint64), clock readings (behind/equal/ahead, unaligned, stepping), increments, pools 0..64 and one of 66 000, heights up to 2^32, views > 0; the block the primary hands over is compared with its proposal.', note='gap prevTs < trunc(now) < prevTs+inc only checked for strict increase', ref='4.15'),
 'C17': dict(engine='c17', technique='runtime monitoring: offline log monitor (agreement, contiguity, chain links, progress, interval) over the real simulation binary, also built with the race detector',
   text='the built internal/simulation program runs in private network namespaces for 23 s (quick) with several flag sets; approvals are parsed from its log.', note='real time: only one-sided loose bounds, load guard makes lateness findings inconclusive', ref='4.17, 5.3'),
 'C18': dict(engine='c18', technique='runtime monitoring: online shadow oracle (never-early lower bound, latest epoch, zero-duration, owed expiry) over generated Reset/Extend/wait/read sequences on the real timer.Timer against the monotonic clock',
   text='generated operation sequences on 128-256 real timers; one-sided hard bounds that are sound under load, lateness only beyond 2 s relative to a control timer and with a scheduler-stall heartbeat.', note='real time is observed; a stalled machine makes cases inconclusive, never violated; thorough tier may be run with VERIF_RACE=1', ref='4.18'),
 'C19': dict(engine='c19', technique='runtime monitoring: oracles (hash sensitivity, codec fixed point and round trip, recovery rebuild, signature and Merkle sensitivity) over generated payloads/blocks/bytes/keys executed on the real internal packages',
   text='seeded generators and boundary lists drive the real internal/consensus, internal/crypto, internal/merkle code; byte fuzzing in a memory-limited child process.', note='reference wire-format omissions are reported as observations (observationsNotAsserted), see DESIGN 4.19', ref='4.19'),

 'C20': dict(engine='c20', technique="runtime monitoring of the specifications themselves: TLC simulation mode generates random behaviours from Init/Next of each shipped .tla and evaluates the named invariants on every generated state; coverage probes (negated reachability predicates that must be refuted) show what the behaviours reached",
   text='the five .tla files are read from the working tree, run with generated cfgs (shipped constants, MaxView 1..2, every fault set the ASSUME permits) under tlc -simulate; held on K behaviours / S states, not exhaustive by design.', note='exploration only: exhaustive BFS, Apalache and TLAPS are deliberately not the deciding step (technique family); TLC itself is trusted; known finding: dbftCV3 with a faulty node (directed replay through the shipped Next); focused simulations for late views', ref='4.20, 5.8, 5.13'),
}
tiers_thorough_env = {'C18': 'VERIF_RACE=1 ', 'C08': 'VERIF_RACE=1 '}
out = {"version": 1, "setup_cmd": "bin/setup",
 "hooks": {"guard": "verif", "enable": "go build -tags verif (bin/check builds every engine with it)", "baseline_off_cmd": "bin/baseline_off", "source_commits": commits, "add_only": True},
 "engines": [
  {"name": "vnet", "path": "harness/vnet + harness/mon + harness/checks + harness/cmd/vcheck", "serves_properties": [p for p in checks if checks[p]['engine']=='vnet'], "kind_free_text": "virtual-time cluster of real dbft instances with seeded adversarial scheduler, Byzantine adversary, per-property online/offline monitors"},
 ],
 "checks": [], "notes": "bin/check <ID> <tier> rebuilds the engine against /repo's working tree with -tags verif. KNOWN_FINDINGS.txt lists recorded defects; replays/ holds witnesses. See DESIGN.md.",
 "not_applicable": []}
for e in ('c06','c17','c18','c19','c20'):
    ps=[p for p in checks if checks[p]['engine']==e]
    if ps: out['engines'].append({"name": e, "path": "harness/cmd/"+e, "serves_properties": ps, "kind_free_text": "stand-alone runtime-checking engine"})
for p in props:
    if p in checks:
        c = checks[p]
        out['checks'].append({"property_id": p, "quick_cmd": f"bin/check {p} quick", "thorough_cmd": f"{tiers_thorough_env.get(p,'')}bin/check {p} thorough",
          "evidence_file": f"/verif/evidence/{p}.json", "replay_cmd_template": "jq -r .witness.replay_cmd {path}  # then run the printed command in /verif",
          "engine": c['engine'], "level_claimed": {"category": "exploration", "text": c['text'], "design_ref": "DESIGN.md §"+c['ref']},
          "level_note": c['note'], "technique": c['technique']})
    else:
        out['not_applicable'].append({"property_id": p, "reason": "check not built yet (work in progress, will be claimed)"})
json.dump(out, open(os.path.join(V, 'MANIFEST.json'), 'w'), indent=1)
print("claimed:", [c['property_id'] for c in out['checks']])
