#!/usr/bin/env python3
"""Regenerates /verif/MANIFEST.json from the table below (single source of truth)."""
import json, os, subprocess
V = os.path.dirname(os.path.dirname(os.path.abspath(__file__)))
props = [json.loads(l)['id'] for l in open(os.path.join(V, 'properties.jsonl'))]
try:
    commits = subprocess.check_output(['git', '-C', '/repo', 'log', '--format=%h %s', '--grep=^verif:'], text=True).strip().splitlines()
except Exception:
    commits = []

VN = "real dbft instances in a deterministic virtual-time cluster (harness/vnet) under a seeded hostile scheduler; "
checks = {
 'C01': dict(engine='vnet', technique='runtime monitoring: offline agreement checker over ProcessBlock events of honest nodes in hostile virtual-time cluster runs (Byzantine/equivocating/replaying adversaries, loss, duplication, early timeouts)',
   text=VN+'oracle compares the blocks accepted by all honest never-restarted nodes per height; forks are attributed through re-validated acceptance certificates. Held on the runs executed, nothing more; the known fork (early unverified commits) is reported as KNOWN-FINDING.',
   note='assumes an authenticated transport (adversaries cannot forge honest payloads/signatures; harness MAC signatures), <=F faulty validators, harness payload/block implementations; explores N<=10, 2-4 heights', ref='4.1, 5.1'),
 'C02': dict(engine='vnet', technique='runtime monitoring: online certificate re-validation inside every ProcessBlock/ProcessPreBlock callback (M verifying current-view (pre)commits, tip extension, block == proposal)',
   text=VN+'at every acceptance the monitor re-verifies every counted commit/pre-commit signature against exactly the handed-over block, checks index/prev hash against the ledger and rebuilds the block from the stored proposal.',
   note='same assumptions as C01; known finding early-unverified-(pre)commit is listed in KNOWN_FINDINGS.txt', ref='4.2, 5.1'),
 'C03': dict(engine='vnet', technique='runtime monitoring: offline checker over each honest node\'s Broadcast history (equivocation, commit lock, recovery-message retransmissions, view monotonicity)',
   text=VN+'oracle over the complete outgoing message history and view entries of every honest node.', note='nodes are excluded from their first amnesia restart on; authenticated transport', ref='4.3'),
 'C04': dict(engine='vnet', technique='runtime monitoring: online precondition evaluation at every PrepareResponse/Commit/PreCommit send and every view entry against the node\'s exported tables',
   text=VN+'preconditions (designated primary, all transactions held, verification accepted that block, M preparations naming the proposal, M change views) are evaluated on the live Context at the instant of the send / view entry.', note='authenticated transport; <=F faulty', ref='4.4'),
 'C07': dict(engine='vnet', technique='runtime monitoring: online phase-order automaton per node and height (pre-commit -> pre-block -> commit -> block) over callback events',
   text=VN+'automaton over Broadcast/ProcessPreBlock/NewBlockFromContext/Sign/ProcessBlock events with anti-MEV off, on from genesis and switching on mid-run, with failing callbacks.', note='harness pre-block/block types model verifiable decryption shares', ref='4.7'),
 'C08': dict(engine='vnet', technique='runtime monitoring: offline checker over fault-free synchronous virtual-time runs with randomly permuted/duplicated deliveries (all decide every height in view 0, no ChangeView/RecoveryRequest)',
   text=VN+'all validators honest, every due message delivered before a timer may expire, random order and duplicates inside each round, early traffic via slow block persistence; bounded restatement, see DESIGN.', note='premise limits: latency <= T/50, Reset delay inside the timer slack; genesis-height zero timers excluded for runs with latency (DESIGN 5.10)', ref='4.8'),
 'C10': dict(engine='vnet', technique='runtime monitoring: online timer-armed assertion after every API return on the injected virtual timer',
   text=VN+'after each Start/Reset/OnReceive/OnTimeout/OnTransaction/OnNewTransaction return the injected timer of an undecided validator must be pending for exactly (BlockIndex, ViewNumber) with a non-negative duration; matching timeouts must re-arm.', note='views whose shift overflows (>~28) are not reached', ref='4.10'),
 'C14': dict(engine='vnet', technique='runtime monitoring: twin-run trace comparison of one deterministic schedule under shifted virtual epochs and repeated wall-clock instants',
   text='the same scripted FIFO schedule is executed with epoch E, E+delta and E again; timer arguments and payload streams (timestamps minus epoch) must be identical.', note='nonces/hashes/signatures excluded (crypto/rand nonce); runs that used the map-ordered cache replay are skipped', ref='4.14, 5.4'),
 'C16': dict(engine='vnet', technique='runtime monitoring: offline timing checker over virtual-time-stamped proposals in fault-free synchronous runs with MaxTimePerBlock',
   text=VN+'proposal gaps >= min, empty proposals >= max after the previous one, notified primary proposes inside the OnNewTransaction call, no idle view change, subscription only with the extension.', note='tolerance 2 x one-way latency; a timeout while the proposal is in flight to that node is outside the premise', ref='4.16'),
 'C18': dict(engine='c18', technique='runtime monitoring: online shadow oracle (never-early lower bound, latest epoch, zero-duration, owed expiry) over generated Reset/Extend/wait/read sequences on the real timer.Timer against the monotonic clock',
   text='generated operation sequences on 128-256 real timers; one-sided hard bounds that are sound under load, lateness only beyond 2 s relative to a control timer and with a scheduler-stall heartbeat.', note='real time is observed; a stalled machine makes cases inconclusive, never violated; thorough tier may be run with VERIF_RACE=1', ref='4.18'),
 'C19': dict(engine='c19', technique='runtime monitoring: oracles (hash sensitivity, codec fixed point and round trip, recovery rebuild, signature and Merkle sensitivity) over generated payloads/blocks/bytes/keys executed on the real internal packages',
   text='seeded generators and boundary lists drive the real internal/consensus, internal/crypto, internal/merkle code; byte fuzzing in a memory-limited child process.', note='reference wire-format omissions are reported as observations (observationsNotAsserted), see DESIGN 4.19', ref='4.19'),
}
tiers_thorough_env = {'C18': 'VERIF_RACE=1 '}
out = {"version": 1, "setup_cmd": "bin/setup",
 "hooks": {"guard": "verif", "enable": "go build -tags verif (bin/check builds every engine with it)", "baseline_off_cmd": "bin/baseline_off", "source_commits": commits, "add_only": True},
 "engines": [
  {"name": "vnet", "path": "harness/vnet + harness/mon + harness/checks + harness/cmd/vcheck", "serves_properties": [p for p in checks if checks[p]['engine']=='vnet'], "kind_free_text": "virtual-time cluster of real dbft instances with seeded adversarial scheduler, Byzantine adversary, per-property online/offline monitors"},
 ],
 "checks": [], "notes": "bin/check <ID> <tier> rebuilds the engine against /repo's working tree with -tags verif. KNOWN_FINDINGS.txt lists recorded defects; replays/ holds witnesses. See DESIGN.md.",
 "not_applicable": []}
for e in ('c06','c17','c18','c19','c20'):
    ps=[p for p in checks if checks[p]['engine']==e]
    if ps: out['engines'].append({"name": e, "path": "harness/cmd/"+e, "serves_properties": ps, "kind_free_text": "stand-alone runtime-checking engine"})
for p in props:
    if p in checks:
        c = checks[p]
        out['checks'].append({"property_id": p, "quick_cmd": f"bin/check {p} quick", "thorough_cmd": f"{tiers_thorough_env.get(p,'')}bin/check {p} thorough",
          "evidence_file": f"/verif/evidence/{p}.json", "replay_cmd_template": "jq -r .witness.replay_cmd {path}  # then run the printed command in /verif",
          "engine": c['engine'], "level_claimed": {"category": "exploration", "text": c['text'], "design_ref": "DESIGN.md §"+c['ref']},
          "level_note": c['note'], "technique": c['technique']})
    else:
        out['not_applicable'].append({"property_id": p, "reason": "check not built yet (work in progress, will be claimed)"})
json.dump(out, open(os.path.join(V, 'MANIFEST.json'), 'w'), indent=1)
print("claimed:", [c['property_id'] for c in out['checks']])
