#!/usr/bin/env python3
"""Prints the markdown table 'which checks catch which seeded changes' from seeded/*/ (meta.json, confirm.txt) and the own-mutant log."""
import json, os, glob, re
V = os.path.dirname(os.path.dirname(os.path.abspath(__file__)))
print("| seeded change | property | what it needs (excerpt of the author's notes) | caught by (quick tier) | not caught by |")
print("|---|---|---|---|---|")
for d in sorted(glob.glob(os.path.join(V, 'seeded', '*'))):
    name = os.path.basename(d)
    mp = os.path.join(d, 'meta.json')
    if name == 'own' or not os.path.exists(mp):
        continue
    m = json.load(open(mp))
    needs = m.get('needs_to_manifest') or m.get('needs') or ''
    needs = re.sub(r'\s+', ' ', needs).replace('`', '').replace('## ', '')
    needs = needs[:220] + ('…' if len(needs) > 220 else '')
    caught = m.get('caught_by', [])
    def tidy(c):
        if re.match(r'^C\d\d (quick|thorough) \(\d+ ', c):
            c = re.sub(r'\s+\d+\s+', ' ', c)  # keep the first count only
        return re.sub(r'\s+[0-9a-f]{8}\]?(?=[ )]|$)', '', c).replace('  ', ' ')
    caught = '; '.join(tidy(c) for c in caught) or '—'
    missed = ', '.join(m.get('not_caught_by', [])) or ''
    print(f"| `{name}` | {m.get('property','')} | {needs.replace('|','/')} | {caught.replace('|','/')} | {missed} |")
